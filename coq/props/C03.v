(* C03: the axis geometry computed by init_axis is the Frenet-Serret geometry of the input curve
   (statements in C03_spec.v).  All theorems are stated for every model VA of the program
   regenerated from init_axis (resp. V1 of r1_diagnostics_h0 / _hN). *)
From Coq Require Import Reals String List Lra Lia QArith Qreals Psatz FunctionalExtensionality.
From QSC Require Import Expr Shallow.
From QSCGen Require Import G_init_axis G_r1_diagnostics.
From QSCProps Require Import C03_spec.
Open Scope R_scope.
Open Scope string_scope.

Lemma ssa_init_axis : ssa init_axis = true. Proof. vm_compute. reflexivity. Qed.
Lemma ssa_r1_h0 : ssa r1_diagnostics_h0 = true. Proof. vm_compute. reflexivity. Qed.
Lemma ssa_r1_hN : ssa r1_diagnostics_hN = true. Proof. vm_compute. reflexivity. Qed.

(* ------------------------------------------------------------------------------------------ *)
(* Pure real algebra: the frame built from r' = a, r'' = b                                     *)
(* ------------------------------------------------------------------------------------------ *)
Section RealAlg.
  Variables a0 a1 a2 b0 b1 b2 l lp kap : R.
  Variables T0 T1 T2 t0 t1 t2 n0 n1 n2 : R.
  Hypothesis Hl : 0 < l.
  Hypothesis Hl2 : l * l = a0 * a0 + a1 * a1 + a2 * a2.
  Hypothesis Hlp : lp * l = a0 * b0 + a1 * b1 + a2 * b2.
  Hypothesis HT0 : T0 = (- a0 * lp / l + b0) / (l * l).
  Hypothesis HT1 : T1 = (- a1 * lp / l + b1) / (l * l).
  Hypothesis HT2 : T2 = (- a2 * lp / l + b2) / (l * l).
  Hypothesis Hk2 : kap * kap = T0 * T0 + T1 * T1 + T2 * T2.
  Hypothesis Hk : kap <> 0.
  Hypothesis Ht0 : t0 = a0 / l.
  Hypothesis Ht1 : t1 = a1 / l.
  Hypothesis Ht2 : t2 = a2 / l.
  Hypothesis Hn0 : n0 = T0 / kap.
  Hypothesis Hn1 : n1 = T1 / kap.
  Hypothesis Hn2 : n2 = T2 / kap.

  Lemma alg_tt : t0 * t0 + t1 * t1 + t2 * t2 = 1.
  Proof.
    rewrite Ht0, Ht1, Ht2.
    transitivity ((a0 * a0 + a1 * a1 + a2 * a2) / (l * l)); [field; lra|].
    rewrite <- Hl2. field. lra.
  Qed.

  Lemma alg_tT : t0 * T0 + t1 * T1 + t2 * T2 = 0.
  Proof.
    rewrite Ht0, Ht1, Ht2, HT0, HT1, HT2.
    transitivity ((- (a0 * a0 + a1 * a1 + a2 * a2) * lp + (a0 * b0 + a1 * b1 + a2 * b2) * l) / (l * l * l * l));
      [field; lra|].
    rewrite <- Hl2, <- Hlp. field. lra.
  Qed.

  Lemma alg_nn : n0 * n0 + n1 * n1 + n2 * n2 = 1.
  Proof.
    rewrite Hn0, Hn1, Hn2.
    transitivity ((T0 * T0 + T1 * T1 + T2 * T2) / (kap * kap)); [field; assumption|].
    rewrite <- Hk2. field. assumption.
  Qed.

  Lemma alg_tn : t0 * n0 + t1 * n1 + t2 * n2 = 0.
  Proof.
    rewrite Hn0, Hn1, Hn2.
    transitivity ((t0 * T0 + t1 * T1 + t2 * T2) / kap); [field; assumption|].
    rewrite alg_tT. field. assumption.
  Qed.

  (* Lagrange: kappa^2 l^6 = |a x b|^2 *)
  Lemma alg_den :
    (a1 * b2 - a2 * b1) ^ 2 + (a2 * b0 - a0 * b2) ^ 2 + (a0 * b1 - a1 * b0) ^ 2 = kap * kap * l ^ 6.
  Proof.
    rewrite Hk2, HT0, HT1, HT2.
    transitivity ((a0 * a0 + a1 * a1 + a2 * a2) * (b0 * b0 + b1 * b1 + b2 * b2)
                  - (a0 * b0 + a1 * b1 + a2 * b2) * (a0 * b0 + a1 * b1 + a2 * b2)); [ring|].
    transitivity ((a0 * a0 + a1 * a1 + a2 * a2) * lp * lp - 2 * (a0 * b0 + a1 * b1 + a2 * b2) * lp * l
                  + (b0 * b0 + b1 * b1 + b2 * b2) * (l * l)); [|field; lra].
    rewrite <- Hl2, <- Hlp. ring.
  Qed.
End RealAlg.

(* orthonormal right-handed frames: consequences *)
Section FrameAlg.
  Variables t0 t1 t2 n0 n1 n2 : R.
  Hypothesis Htt : t0 * t0 + t1 * t1 + t2 * t2 = 1.
  Hypothesis Hnn : n0 * n0 + n1 * n1 + n2 * n2 = 1.
  Hypothesis Htn : t0 * n0 + t1 * n1 + t2 * n2 = 0.
  Let B0 := t1 * n2 - t2 * n1.
  Let B1 := t2 * n0 - t0 * n2.
  Let B2 := t0 * n1 - t1 * n0.

  Lemma frame_bb : B0 * B0 + B1 * B1 + B2 * B2 = 1.
  Proof.
    unfold B0, B1, B2.
    transitivity ((t0 * t0 + t1 * t1 + t2 * t2) * (n0 * n0 + n1 * n1 + n2 * n2)
                  - (t0 * n0 + t1 * n1 + t2 * n2) * (t0 * n0 + t1 * n1 + t2 * n2)); [ring|].
    rewrite Htt, Hnn, Htn. ring.
  Qed.
  Lemma frame_tb : t0 * B0 + t1 * B1 + t2 * B2 = 0.
  Proof. unfold B0, B1, B2. ring. Qed.
  Lemma frame_nb : n0 * B0 + n1 * B1 + n2 * B2 = 0.
  Proof. unfold B0, B1, B2. ring. Qed.

  (* completeness: w = (w.t) t + (w.n) n + (w.b) b *)
  Lemma frame_expand w0 w1 w2 :
    let wt := w0 * t0 + w1 * t1 + w2 * t2 in
    let wn := w0 * n0 + w1 * n1 + w2 * n2 in
    let wb := w0 * B0 + w1 * B1 + w2 * B2 in
    w0 = wt * t0 + wn * n0 + wb * B0 /\ w1 = wt * t1 + wn * n1 + wb * B1 /\ w2 = wt * t2 + wn * n2 + wb * B2.
  Proof.
    intros wt wn wb.
    assert (K : forall wi ti ni Bi,
      wb * Bi = wi * ((t0 * t0 + t1 * t1 + t2 * t2) * (n0 * n0 + n1 * n1 + n2 * n2)
                      - (t0 * n0 + t1 * n1 + t2 * n2) * (t0 * n0 + t1 * n1 + t2 * n2))
                - ti * (wt * (n0 * n0 + n1 * n1 + n2 * n2) - wn * (t0 * n0 + t1 * n1 + t2 * n2))
                + ni * (wt * (t0 * n0 + t1 * n1 + t2 * n2) - wn * (t0 * t0 + t1 * t1 + t2 * t2)) ->
      wi = wt * ti + wn * ni + wb * Bi).
    { intros wi ti ni Bi H. rewrite H, Htt, Hnn, Htn. ring. }
    repeat split; apply K; unfold wt, wn, wb, B0, B1, B2; ring.
  Qed.

  (* t x b = - n *)
  Lemma frame_txb :
    t1 * B2 - t2 * B1 = - n0 /\ t2 * B0 - t0 * B2 = - n1 /\ t0 * B1 - t1 * B0 = - n2.
  Proof.
    assert (K : forall ti ni x,
      x = ti * (t0 * n0 + t1 * n1 + t2 * n2) - ni * (t0 * t0 + t1 * t1 + t2 * t2) -> x = - ni).
    { intros ti ni x H. rewrite H, Htt, Htn. ring. }
    repeat split; [apply (K t0)|apply (K t1)|apply (K t2)]; unfold B0, B1, B2; ring.
  Qed.
End FrameAlg.

Ltac vnames := cbv [vec tvec nvec bvec dot ddl Nat.eqb append].

(* ------------------------------------------------------------------------------------------ *)
(* T1: frame, tangent, curvature sign, X1c                                                      *)
(* ------------------------------------------------------------------------------------------ *)
Section T1.
  Context {I : Type} (O : ops I) (VA : string -> I -> R).
  Hypothesis HV : is_fix O init_axis VA.
  Hypothesis Hadm : admissible_axis VA.

  Local Ltac ua l := unfold_fixes O init_axis HV l.

  (* local names of the program *)
  Definition lL := VA "d_l_d_phi".
  Definition kL := VA "curvature".
  Definition tL (k : nat) := VA (match k with 0%nat => "tangent_cylindrical_0#2" | 1%nat => "tangent_cylindrical_1#2" | _ => "tangent_cylindrical_2#2" end).
  Definition nL (k : nat) := VA (match k with 0%nat => "normal_cylindrical_0#2" | 1%nat => "normal_cylindrical_1#2" | _ => "normal_cylindrical_2#2" end).
  Definition bL (k : nat) := VA (match k with 0%nat => "binormal_cylindrical_0#2" | 1%nat => "binormal_cylindrical_1#2" | _ => "binormal_cylindrical_2#2" end).
  Definition TL (k : nat) := VA (match k with 0%nat => "d_tangent_d_l_cylindrical_0#2" | 1%nat => "d_tangent_d_l_cylindrical_1#2" | _ => "d_tangent_d_l_cylindrical_2#2" end).

  Lemma l_sq i : lL i * lL i = VA "R0_sum" i * VA "R0_sum" i + VA "R0p_sum" i * VA "R0p_sum" i + VA "Z0p_sum" i * VA "Z0p_sum" i.
  Proof. unfold lL. ua ("d_l_d_phi" :: nil)%list. apply sqrt_sqrt. left. apply (ax_speed _ Hadm). Qed.
  Lemma l_pos i : 0 < lL i.
  Proof. unfold lL. ua ("d_l_d_phi" :: nil)%list. apply sqrt_lt_R0. apply (ax_speed _ Hadm). Qed.
  Lemma k_sq i : kL i * kL i = TL 0 i * TL 0 i + TL 1 i * TL 1 i + TL 2 i * TL 2 i.
  Proof. unfold kL, TL. ua ("curvature" :: nil)%list. apply sqrt_sqrt. nra. Qed.
  Lemma k_nz i : kL i <> 0.
  Proof. unfold kL. pose proof (ax_kappa _ Hadm i) as H. revert H. ua ("s.curvature" :: nil)%list. auto. Qed.
  Lemma k_nonneg i : 0 <= kL i.
  Proof. unfold kL. ua ("curvature" :: nil)%list. apply sqrt_pos. Qed.

  Notation R0 := (VA "R0_sum"). Notation R0p := (VA "R0p_sum"). Notation R0pp := (VA "R0pp_sum"). Notation R0ppp := (VA "R0ppp_sum").
  Notation Z0p := (VA "Z0p_sum"). Notation Z0pp := (VA "Z0pp_sum"). Notation Z0ppp := (VA "Z0ppp_sum").
  Definition lpL := VA "d2_l_d_phi2".

  Lemma lp_eq i : lpL i * lL i = R0p i * (R0pp i - R0 i) + R0 i * (2 * R0p i) + Z0p i * Z0pp i.
  Proof.
    pose proof (l_pos i) as Hl. unfold lpL. ua ("d2_l_d_phi2" :: nil)%list. fold lL. field. lra.
  Qed.
  Lemma T0_eq i : TL 0 i = (- R0p i * lpL i / lL i + (R0pp i - R0 i)) / (lL i * lL i).
  Proof. unfold TL, lpL, lL. ua ("d_tangent_d_l_cylindrical_0#2" :: "d_r_d_phi_cylindrical_0" :: "d2_r_d_phi2_cylindrical_0" :: nil)%list. reflexivity. Qed.
  Lemma T1_eq i : TL 1 i = (- R0 i * lpL i / lL i + 2 * R0p i) / (lL i * lL i).
  Proof. unfold TL, lpL, lL. ua ("d_tangent_d_l_cylindrical_1#2" :: "d_r_d_phi_cylindrical_1" :: "d2_r_d_phi2_cylindrical_1" :: nil)%list. qsimp. reflexivity. Qed.
  Lemma T2_eq i : TL 2 i = (- Z0p i * lpL i / lL i + Z0pp i) / (lL i * lL i).
  Proof. unfold TL, lpL, lL. ua ("d_tangent_d_l_cylindrical_2#2" :: "d_r_d_phi_cylindrical_2" :: "d2_r_d_phi2_cylindrical_2" :: nil)%list. reflexivity. Qed.
  Lemma t0_eq i : tL 0 i = R0p i / lL i.
  Proof. unfold tL, lL. ua ("tangent_cylindrical_0#2" :: "d_r_d_phi_cylindrical_0" :: nil)%list. reflexivity. Qed.
  Lemma t1_eq i : tL 1 i = R0 i / lL i.
  Proof. unfold tL, lL. ua ("tangent_cylindrical_1#2" :: "d_r_d_phi_cylindrical_1" :: nil)%list. reflexivity. Qed.
  Lemma t2_eq i : tL 2 i = Z0p i / lL i.
  Proof. unfold tL, lL. ua ("tangent_cylindrical_2#2" :: "d_r_d_phi_cylindrical_2" :: nil)%list. reflexivity. Qed.
  Lemma n0_eq i : nL 0 i = TL 0 i / kL i.
  Proof. unfold nL, TL, kL. ua ("normal_cylindrical_0#2" :: nil)%list. reflexivity. Qed.
  Lemma n1_eq i : nL 1 i = TL 1 i / kL i.
  Proof. unfold nL, TL, kL. ua ("normal_cylindrical_1#2" :: nil)%list. reflexivity. Qed.
  Lemma n2_eq i : nL 2 i = TL 2 i / kL i.
  Proof. unfold nL, TL, kL. ua ("normal_cylindrical_2#2" :: nil)%list. reflexivity. Qed.
  Lemma b_eq i : bL 0 i = tL 1 i * nL 2 i - tL 2 i * nL 1 i /\ bL 1 i = tL 2 i * nL 0 i - tL 0 i * nL 2 i
                 /\ bL 2 i = tL 0 i * nL 1 i - tL 1 i * nL 0 i.
  Proof. unfold bL, tL, nL. ua ("binormal_cylindrical_0#2" :: "binormal_cylindrical_1#2" :: "binormal_cylindrical_2#2" :: nil)%list. repeat split; reflexivity. Qed.

  Lemma l_sq' i : lL i * lL i = R0p i * R0p i + R0 i * R0 i + Z0p i * Z0p i.
  Proof. rewrite l_sq. ring. Qed.
  Local Ltac inst L i :=
    eapply L;
    first [ exact (l_pos i) | exact (lp_eq i) | exact (l_sq' i) | exact (T0_eq i) | exact (T1_eq i) | exact (T2_eq i)
          | exact (k_sq i) | exact (k_nz i)
          | exact (t0_eq i) | exact (t1_eq i) | exact (t2_eq i) | exact (n0_eq i) | exact (n1_eq i) | exact (n2_eq i) ].

  Lemma L_tt i : tL 0 i * tL 0 i + tL 1 i * tL 1 i + tL 2 i * tL 2 i = 1.
  Proof. inst alg_tt i. Qed.
  Lemma L_nn i : nL 0 i * nL 0 i + nL 1 i * nL 1 i + nL 2 i * nL 2 i = 1.
  Proof. apply (alg_nn (kL i) (TL 0 i) (TL 1 i) (TL 2 i)); first [ exact (k_sq i) | exact (k_nz i) | exact (n0_eq i) | exact (n1_eq i) | exact (n2_eq i) ]. Qed.
  Lemma L_tn i : tL 0 i * nL 0 i + tL 1 i * nL 1 i + tL 2 i * nL 2 i = 0.
  Proof. inst alg_tn i. Qed.
  Lemma L_den i : (R0 i * Z0pp i - Z0p i * (2 * R0p i)) ^ 2 + (Z0p i * (R0pp i - R0 i) - R0p i * Z0pp i) ^ 2
                  + (R0p i * (2 * R0p i) - R0 i * (R0pp i - R0 i)) ^ 2 = kL i * kL i * lL i ^ 6.
  Proof. inst alg_den i. Qed.

  Local Ltac snames :=
    ua ("s.tangent_cylindrical_0" :: "s.tangent_cylindrical_1" :: "s.tangent_cylindrical_2"
        :: "s.normal_cylindrical_0" :: "s.normal_cylindrical_1" :: "s.normal_cylindrical_2"
        :: "s.binormal_cylindrical_0" :: "s.binormal_cylindrical_1" :: "s.binormal_cylindrical_2"
        :: "s.d_l_d_phi" :: "s.curvature" :: "s.torsion" :: nil)%list.

  Theorem C03_orthonormal : orthonormal VA.
  Proof.
    intros i. vnames. snames.
    pose proof (L_tt i) as Htt. pose proof (L_nn i) as Hnn. pose proof (L_tn i) as Htn.
    destruct (b_eq i) as (Hb0 & Hb1 & Hb2).
    cbv [tL nL bL] in *. rewrite Hb0, Hb1, Hb2.
    split; [exact Htt|]. split; [exact Hnn|].
    split; [apply frame_bb; assumption|]. split; [exact Htn|].
    split; ring.
  Qed.

  Theorem C03_right_handed : right_handed VA.
  Proof. intros i. vnames. snames. exact (b_eq i). Qed.

  Theorem C03_tangent : tangent_is_dr_dl VA.
  Proof.
    intros i. vnames. snames.
    pose proof (l_pos i) as Hl. pose proof (l_sq i) as Hl2.
    pose proof (t0_eq i) as H0. pose proof (t1_eq i) as H1. pose proof (t2_eq i) as H2.
    cbv [tL lL] in *. rewrite H0, H1, H2.
    split; [exact Hl|]. split; [exact Hl2|].
    split; [field; lra|]. split; [field; lra|]. split; [field; lra|].
    apply Rdiv_lt_0_compat; [apply (ax_R0 _ Hadm)|exact Hl].
  Qed.

  Theorem C03_curvature_positive : curvature_positive VA.
  Proof. intros i. snames. exact (k_nonneg i). Qed.

  Theorem C03_X1c : X1c_def VA.
  Proof. intros i. ua ("s.X1c" :: "s.curvature" :: nil)%list. reflexivity. Qed.

  Theorem C03_T1 : orthonormal VA /\ right_handed VA /\ tangent_is_dr_dl VA /\ curvature_positive VA /\ X1c_def VA.
  Proof.
    split; [exact C03_orthonormal|]. split; [exact C03_right_handed|]. split; [exact C03_tangent|].
    split; [exact C03_curvature_positive|exact C03_X1c].
  Qed.
End T1.
