(* C01 (split for parallel compilation): second order: all claims and the closed theorems C01_r2_h0 / C01_r2_hN *)
From Coq Require Import Reals String List Lra Lia QArith Qreals FunctionalExtensionality.
From QSC Require Import Expr Shallow Series.
From QSCGen Require Import G_init_axis G_r1_diagnostics G_residual G_calculate_r2 G_calculate_r3.
From QSCProps Require Import C04_spec C01_spec C01_common C01_facts2 C01_r1 C01_r2base C01_r2a C01_r2b C01_r2c.
Open Scope R_scope.
Open Scope string_scope.

Section R2.
  Context {I : Type} (O : ops I) (S : string -> I -> R).
  Hypothesis HD : derivation O.
  Hypothesis HA : axis_facts S.
  Hypothesis HR : r1_facts O S.
  Hypothesis H2 : r2_facts O S.
  Hypothesis Hadm : admissible S.
  Hypothesis Hsig : forall i, sigma_residual O S i = 0.
  Variable i : I.
  Variable b : atoms.
  Theorem r2_claims : claims_r2 (with_second_order S i b).
  Proof.
    repeat split;
      [ exact (pol3 O S HD HA HR H2 Hadm Hsig i b) | exact (tor2 O S HD HA HR H2 Hadm Hsig i b)
      | exact (rad1 O S HD HA HR H2 Hadm Hsig i b) | exact (jac2 O S HD HA HR H2 Hadm Hsig i b)
      | exact (modB2 O S HD HA HR H2 Hadm Hsig i b) | exact (crl2 O S HD HA HR H2 Hadm Hsig i b) ].
  Qed.
End R2.

Definition r2_hyps {I : Type} (O : ops I) (S : string -> I -> R) (P1 P2 : prog) : Prop :=
  r1_hyps O S P1
  /\ (exists V2, stage O P2 S V2 /\ (forall i, V2 "solve1_eq0" i = 0) /\ (forall i, V2 "solve1_eq1" i = 0)).
Section Closed2.
  Context {I : Type} (O : ops I) (S : string -> I -> R).

  (* order r2; [b] supplies arbitrary values for every attribute of order 3 *)
  Definition C01_r2_statement (P1 P2 : prog) : Prop :=
    r2_hyps O S P1 P2 -> forall i b, claims_r2 (with_second_order S i b).
  Lemma C01_r2_gen P1 P2 : (forall V1, stage O P1 S V1 -> r1_facts O S) ->
    (forall V2, stage O P2 S V2 -> (forall i, V2 "solve1_eq0" i = 0) -> (forall i, V2 "solve1_eq1" i = 0) -> r2_facts O S) ->
    C01_r2_statement P1 P2.
  Proof.
    intros F F2 ((HD & Hadm & [VA HA] & [V1 H1] & [VR [HRs Hsol]]) & [V2 (H2 & Hz0 & Hz1)]) i b.
    pose proof (axis_facts_of_stage O S VA HA) as FA. pose proof (F V1 H1) as FR.
    first [ pose proof (sigma_residual_zero O S FA Hadm VR HRs Hsol) as Hs
          | pose proof (sigma_residual_zero O S HD FA FR Hadm VR HRs Hsol) as Hs
          | pose proof (sigma_residual_zero O S HD FA Hadm VR HRs Hsol) as Hs ].
    exact (r2_claims O S HD FA FR (F2 V2 H2 Hz0 Hz1) Hadm Hs i b).
  Qed.
  Ltac close_r2 f1 f2 :=
    let H := fresh "H" in let HD := fresh "HD" in
    intros H; pose proof H as ((HD & _) & _); revert H;
    apply C01_r2_gen; [apply f1 | apply (f2 O S (der_lin O HD))].
  Theorem C01_r2_h0 : C01_r2_statement r1_diagnostics_h0 calculate_r2_h0.
  Proof.
    intros H. pose proof H as ((HD & _) & _). revert H.
    apply C01_r2_gen; [apply r1_facts_of_stage_h0 | apply (r2_facts_of_stage_h0 O S (der_lin O HD))].
  Qed.

  Theorem C01_r2_hN : C01_r2_statement r1_diagnostics_hN calculate_r2_hN.
  Proof. close_r2 (@r1_facts_of_stage_hN I O S) (@r2_facts_of_stage_hN I). Qed.

End Closed2.

Print Assumptions C01_r2_h0.
Print Assumptions C01_r2_hN.
