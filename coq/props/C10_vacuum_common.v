(* C10, vacuum clause (c): shared facts.  Definitions of Z20, Z2s, Z2c (and their derivatives by the Leibniz rule), X2s, X2c,
   B20, G2 pulled from the regenerated calculate_r2 (either variant), over the object state.  Every lemma takes
   (O HD S VA V1 V2 Hadm HA H1 H2 Hcst VR HR Hsig Hvac)  (Default Proof Using "All"). *)
From Coq Require Import Reals String List Lra Lia QArith Qreals FunctionalExtensionality.
From QSC Require Import Expr Shallow.
From QSCGen Require Import G_init_axis G_r1_diagnostics G_calculate_r2 G_residual.
From QSCProps Require Import C10_spec C10_common.
Open Scope R_scope.
Open Scope string_scope.

Section VacCommon.
  Context {I : Type} (O : ops I) (HD : derivation O) (S VA V1 V2 : string -> I -> R).
  Hypothesis Hadm : admissible S.
  Hypothesis HA : stage O init_axis S VA.
  Hypothesis H1 : stage O r1_diagnostics_h0 S V1 \/ stage O r1_diagnostics_hN S V1.
  Hypothesis H2 : stage O calculate_r2_h0 S V2 \/ stage O calculate_r2_hN S V2.
  Hypothesis Hcst : constants S.
  Variable VR : string -> I -> R.
  Hypothesis HR : stage O residual S VR.
  Hypothesis Hsig : sigma_solved O S VR.
  Hypothesis Hvac : vacuum_hyp S.
  Set Default Proof Using "All".
  Notation Dv := (Dv O S).
  Notation sG := (S "s.sG"). Notation spsi := (S "s.spsi"). Notation kap := (S "s.curvature").
  Notation etabar := (S "s.etabar"). Notation X1c := (S "s.X1c"). Notation Y1s := (S "s.Y1s"). Notation Y1c := (S "s.Y1c").
  Notation aGB := (S "s.abs_G0_over_B0"). Notation B0 := (S "s.B0").
  Local Notation F_X1c := (C10_common.F_X1c O HD S VA V1 V2 Hadm HA H1 H2).
  Local Notation F_G0 := (C10_common.F_G0 O HD S VA V1 V2 Hadm HA H1 H2).
  Local Notation F_dldvp := (C10_common.F_dldvp O HD S VA V1 V2 Hadm HA H1 H2).
  Local Notation F_absG0 := (C10_common.F_absG0 O HD S VA V1 V2 Hadm HA H1 H2).
  Local Notation X1c_nz := (C10_common.X1c_nz O HD S VA V1 V2 Hadm HA H1 H2).
  Local Notation F_Y1s := (C10_common.F_Y1s O HD S VA V1 V2 Hadm HA H1 H2).
  Local Notation F_Y1c := (C10_common.F_Y1c O HD S VA V1 V2 Hadm HA H1 H2).
  Local Notation F_dX1c := (C10_common.F_dX1c O HD S VA V1 V2 Hadm HA H1 H2).
  Local Notation F_dY1s := (C10_common.F_dY1s O HD S VA V1 V2 Hadm HA H1 H2).
  Local Notation F_dY1c := (C10_common.F_dY1c O HD S VA V1 V2 Hadm HA H1 H2).
  Local Notation F_dX20 := (C10_common.F_dX20 O HD S VA V1 V2 Hadm HA H1 H2).
  Local Notation F_dX2s := (C10_common.F_dX2s O HD S VA V1 V2 Hadm HA H1 H2).
  Local Notation F_dX2c := (C10_common.F_dX2c O HD S VA V1 V2 Hadm HA H1 H2).
  Local Notation F_dY20 := (C10_common.F_dY20 O HD S VA V1 V2 Hadm HA H1 H2).
  Local Notation F_dY2s := (C10_common.F_dY2s O HD S VA V1 V2 Hadm HA H1 H2).
  Local Notation F_dY2c := (C10_common.F_dY2c O HD S VA V1 V2 Hadm HA H1 H2).
  Local Notation F_dZ20 := (C10_common.F_dZ20 O HD S VA V1 V2 Hadm HA H1 H2).
  Local Notation F_dZ2s := (C10_common.F_dZ2s O HD S VA V1 V2 Hadm HA H1 H2).
  Local Notation F_dZ2c := (C10_common.F_dZ2c O HD S VA V1 V2 Hadm HA H1 H2).
  Local Notation F_dkap := (C10_common.F_dkap O HD S VA V1 V2 Hadm HA H1 H2).
  Local Notation F_dtau := (C10_common.F_dtau O HD S VA V1 V2 Hadm HA H1 H2).
  Local Notation F_d2X1c := (C10_common.F_d2X1c O HD S VA V1 V2 Hadm HA H1 H2).
  Local Notation F_d2Y1s := (C10_common.F_d2Y1s O HD S VA V1 V2 Hadm HA H1 H2).
  Local Notation F_d2Y1c := (C10_common.F_d2Y1c O HD S VA V1 V2 Hadm HA H1 H2).
  Local Notation F_Y2s := (C10_common.F_Y2s O HD S VA V1 V2 Hadm HA H1 H2).
  Local Notation F_Y2c := (C10_common.F_Y2c O HD S VA V1 V2 Hadm HA H1 H2).
  Local Notation sGspsi_const := (C10_common.sGspsi_const O HD S VA V1 V2 Hadm HA H1 H2).
  Local Notation R_XY := (C10_common.R_XY O HD S VA V1 V2 Hadm HA H1 H2).
  Local Notation R_dXY := (C10_common.R_dXY O HD S VA V1 V2 Hadm HA H1 H2).
  Local Notation R_d2XY := (C10_common.R_d2XY O HD S VA V1 V2 Hadm HA H1 H2).
  Local Notation R_kX := (C10_common.R_kX O HD S VA V1 V2 Hadm HA H1 H2).
  Local Notation R_dkX := (C10_common.R_dkX O HD S VA V1 V2 Hadm HA H1 H2).
  Local Notation S_Y1s := (C10_common.S_Y1s O HD S VA V1 V2 Hadm HA H1 H2).
  Local Notation S_dY1s := (C10_common.S_dY1s O HD S VA V1 V2 Hadm HA H1 H2).
  Local Notation S_d2Y1s := (C10_common.S_d2Y1s O HD S VA V1 V2 Hadm HA H1 H2).
  Local Notation S_kap := (C10_common.S_kap O HD S VA V1 V2 Hadm HA H1 H2).
  Local Notation S_dkap := (C10_common.S_dkap O HD S VA V1 V2 Hadm HA H1 H2).
  Local Notation R_Y2s := (C10_common.R_Y2s O HD S VA V1 V2 Hadm HA H1 H2).
  Local Notation R_Y2c := (C10_common.R_Y2c O HD S VA V1 V2 Hadm HA H1 H2).
  Local Notation R_dY2s := (C10_common.R_dY2s O HD S VA V1 V2 Hadm HA H1 H2).
  Local Notation R_dY2c := (C10_common.R_dY2c O HD S VA V1 V2 Hadm HA H1 H2).
  Local Notation sG_nz := (C10_common.sG_nz O HD S VA V1 V2 Hadm HA H1 H2).
  Local Notation spsi_nz := (C10_common.spsi_nz O HD S VA V1 V2 Hadm HA H1 H2).
  Ltac dv_push := dv_push_ O HD.
  Ltac both tac := destruct H2 as [H|H]; [tac calculate_r2_h0 H | tac calculate_r2_hN H].
  Ltac nz := repeat split; first [apply X1c_nz | apply sG_nz | apply spsi_nz | apply (adm_eta S Hadm) | apply (adm_kappa S Hadm)
                                 | apply Rgt_not_eq, (adm_B0 S Hadm) | apply Rgt_not_eq, (adm_lp S Hadm) | lra].
  Ltac fin := rewrite ?F_d2X1c, ?F_d2Y1s, ?F_d2Y1c, ?F_dX1c, ?F_dY1s, ?F_dY1c, ?F_dkap, ?F_dtau; unfold Rdiv; ring.
  Local Notation F_ebc := (C10_common.F_ebc O HD S VA V1 V2 Hadm HA H1 H2 Hcst VR HR Hsig).
  Local Notation S_sigma := (C10_common.S_sigma O HD S VA V1 V2 Hadm HA H1 H2 Hcst VR HR Hsig).
  Local Notation R_sig := (C10_common.R_sig O HD S VA V1 V2 Hadm HA H1 H2 Hcst VR HR Hsig).
  Local Notation R_sig2 := (C10_common.R_sig2 O HD S VA V1 V2 Hadm HA H1 H2 Hcst VR HR Hsig).
  Local Notation S_dY1c := (C10_common.S_dY1c O HD S VA V1 V2 Hadm HA H1 H2 Hcst VR HR Hsig).
  Local Notation S_d2Y1c := (C10_common.S_d2Y1c O HD S VA V1 V2 Hadm HA H1 H2 Hcst VR HR Hsig).
  Local Notation sigE := (C10_common.sigE S).
  Local Notation sigE2 := (C10_common.sigE2 S).
  Ltac consts2 i :=
    let c1 := fresh "c" in let c2 := fresh "c" in let c3 := fresh "c" in let c4 := fresh "c" in let c5 := fresh "c" in let c6 := fresh "c" in
    let E1 := fresh "E" in let E2 := fresh "E" in let E3 := fresh "E" in let E4 := fresh "E" in let E5 := fresh "E" in let E6 := fresh "E" in
    destruct (adm_sG_const S Hadm) as [c1 E1]; destruct (adm_spsi_const S Hadm) as [c2 E2];
    destruct (cst_B0 S Hcst) as [c3 E3]; destruct (cst_iotaN S Hcst) as [c4 E4];
    destruct (cst_lp S Hcst) as [c5 E5]; destruct (cst_I2 S Hcst) as [c6 E6];
    rewrite ?E1, ?E2, ?E3, ?E4, ?E5, ?E6; cbv beta.
  Notation tau := (S "s.torsion"). Notation iotaN := (S "s.iotaN").
  Notation dX1c := (S "s.d_X1c_d_varphi"). Notation dY1s := (S "s.d_Y1s_d_varphi"). Notation dY1c := (S "s.d_Y1c_d_varphi").
  Notation d2X1c := (S "s.d2_X1c_d_varphi2"). Notation d2Y1s := (S "s.d2_Y1s_d_varphi2"). Notation d2Y1c := (S "s.d2_Y1c_d_varphi2").
  Lemma Dv_fold f k : o_D O f k / S "s.d_varphi_d_phi" k = Dv f k.
  Proof. reflexivity. Qed.
  Definition qs_ k := - iotaN k * X1c k - Y1s k * tau k * aGB k.
  Definition qc_ k := dX1c k - Y1c k * tau k * aGB k.
  Definition rs_ k := dY1s k - iotaN k * Y1c k.
  Definition rc_ k := dY1c k + iotaN k * Y1s k + X1c k * tau k * aGB k.
  Ltac z_prep P H nm k :=
    rewrite <- (st_agree _ _ _ _ H nm eq_refl);
    unfold_fixes O P (st_fix _ _ _ _ H) (nm :: "Z20" :: "Z2s" :: "Z2c" :: "factor" :: "B0_over_abs_G0" :: "V1" :: "V2" :: "V3" :: "iota_N"
                                         :: "X1c" :: "Y1s" :: "Y1c" :: nil)%list;
    to_state H; rewrite ?Dv_fold; dv_push; rewrite ?F_dX1c, ?F_dY1s, ?F_dY1c, F_absG0; qsimp; field; nz.
  Lemma F_Z20 k : S "s.Z20" k = - (X1c k * dX1c k + Y1c k * dY1c k + Y1s k * dY1s k) / (4 * aGB k).
  Proof. both ltac:(fun P H => z_prep P H "s.Z20" k). Qed.
  Lemma F_Z2s k : S "s.Z2s" k = - (Y1s k * dY1c k + dY1s k * Y1c k - iotaN k * (X1c k * X1c k + Y1c k * Y1c k - Y1s k * Y1s k)) / (4 * aGB k).
  Proof. both ltac:(fun P H => z_prep P H "s.Z2s" k). Qed.
  Lemma F_Z2c k : S "s.Z2c" k = - (X1c k * dX1c k + Y1c k * dY1c k - Y1s k * dY1s k + 2 * iotaN k * Y1s k * Y1c k) / (4 * aGB k).
  Proof. both ltac:(fun P H => z_prep P H "s.Z2c" k). Qed.
  Lemma R_dZ20 k : S "s.d_Z20_d_varphi" k =
    - (dX1c k * dX1c k + X1c k * d2X1c k + dY1c k * dY1c k + Y1c k * d2Y1c k + dY1s k * dY1s k + Y1s k * d2Y1s k) / (4 * aGB k).
  Proof. rewrite F_dZ20. rewrite (Dv_ext O S _ _ k F_Z20). consts2 k. unfold Rdiv. dv_push. fin. Qed.
  Lemma R_dZ2s k : S "s.d_Z2s_d_varphi" k =
    - (2 * dY1s k * dY1c k + Y1s k * d2Y1c k + d2Y1s k * Y1c k
       - iotaN k * (2 * X1c k * dX1c k + 2 * Y1c k * dY1c k - 2 * Y1s k * dY1s k)) / (4 * aGB k).
  Proof. rewrite F_dZ2s. rewrite (Dv_ext O S _ _ k F_Z2s). consts2 k. unfold Rdiv. dv_push. fin. Qed.
  Lemma R_dZ2c k : S "s.d_Z2c_d_varphi" k =
    - (dX1c k * dX1c k + X1c k * d2X1c k + dY1c k * dY1c k + Y1c k * d2Y1c k - dY1s k * dY1s k - Y1s k * d2Y1s k
       + 2 * iotaN k * (dY1s k * Y1c k + Y1s k * dY1c k)) / (4 * aGB k).
  Proof. rewrite F_dZ2c. rewrite (Dv_ext O S _ _ k F_Z2c). consts2 k. unfold Rdiv. dv_push. fin. Qed.
  Ltac x2_prep P H nm k :=
    rewrite <- (st_agree _ _ _ _ H nm eq_refl);
    unfold_fixes O P (st_fix _ _ _ _ H) (nm :: "X2s" :: "X2c" :: "B20" :: "qc" :: "qs" :: "rc" :: "rs" :: "abs_G0_over_B0" :: "B0_over_abs_G0" :: "iota_N"
          :: "curvature" :: "torsion" :: "etabar" :: "B2s" :: "B2c" :: "B0" :: "p2" :: "X1c" :: "Y1s" :: "Y1c" :: nil)%list;
    loc2attr P H "Z20" "s.Z20"; loc2attr P H "Z2s" "s.Z2s"; loc2attr P H "Z2c" "s.Z2c"; loc2attr P H "X20" "s.X20";
    to_state H; rewrite ?Dv_fold; rewrite <- ?F_dZ20, <- ?F_dZ2s, <- ?F_dZ2c, <- ?F_dX1c, <- ?F_dY1s, <- ?F_dY1c; rewrite F_absG0;
    unfold qc_, qs_, rc_, rs_; qsimp; field; nz.
  Lemma F_X2s k : S "s.X2s" k =
    / aGB k * (S "s.d_Z2s_d_varphi" k - 2 * iotaN k * S "s.Z2c" k
               + / aGB k * (aGB k * aGB k * S "s.B2s" k / B0 k + (qc_ k * qs_ k + rc_ k * rs_ k) / 2)) / kap k.
  Proof. both ltac:(fun P H => x2_prep P H "s.X2s" k). Qed.
  Lemma F_X2c k : S "s.X2c" k =
    / aGB k * (S "s.d_Z2c_d_varphi" k + 2 * iotaN k * S "s.Z2s" k
               - / aGB k * (- aGB k * aGB k * S "s.B2c" k / B0 k + aGB k * aGB k * etabar k * etabar k / 2
                            - (qc_ k * qc_ k - qs_ k * qs_ k + rc_ k * rc_ k - rs_ k * rs_ k) / 4)) / kap k.
  Proof. both ltac:(fun P H => x2_prep P H "s.X2c" k). Qed.
  Lemma F_B20 k : S "s.B20" k =
    B0 k * (kap k * S "s.X20" k - S "s.d_Z20_d_varphi" k / aGB k + etabar k * etabar k / 2 - mu0R * S "s.p2" k / (B0 k * B0 k)
            - (qc_ k * qc_ k + qs_ k * qs_ k + rc_ k * rc_ k + rs_ k * rs_ k) / (4 * aGB k * aGB k)).
  Proof. both ltac:(fun P H => x2_prep P H "s.B20" k). Qed.
  Lemma F_G2 k : S "s.G2" k = - mu0R * S "s.p2" k * S "s.G0" k / (B0 k * B0 k) - S "s.iota" k * S "s.I2" k.
  Proof.
    both ltac:(fun P H => rewrite <- (st_agree _ _ _ _ H "s.G2" eq_refl);
      unfold_fixes O P (st_fix _ _ _ _ H) ("s.G2" :: "p2" :: "G0" :: "B0" :: "iota" :: "I2" :: nil)%list; to_state H; unfold Rdiv; ring).
  Qed.
  Lemma F_I2 k : S "s.I2" k = 0. Proof. apply (proj1 Hvac). Qed.
  Lemma F_p2 k : S "s.p2" k = 0. Proof. apply (proj2 Hvac). Qed.
End VacCommon.

(* the two O(r^2) differential equations over the object state; every lemma takes
   (O HD S VA V1 V2 Hadm HA H1 H2 Hcst VR HR Hsig Hvac Hode) *)
Section VacOde.
  Context {I : Type} (O : ops I) (HD : derivation O) (S VA V1 V2 : string -> I -> R).
  Hypothesis Hadm : admissible S.
  Hypothesis HA : stage O init_axis S VA.
  Hypothesis H1 : stage O r1_diagnostics_h0 S V1 \/ stage O r1_diagnostics_hN S V1.
  Hypothesis H2 : stage O calculate_r2_h0 S V2 \/ stage O calculate_r2_hN S V2.
  Hypothesis Hcst : constants S.
  Variable VR : string -> I -> R.
  Hypothesis HR : stage O residual S VR.
  Hypothesis Hsig : sigma_solved O S VR.
  Hypothesis Hvac : vacuum_hyp S.
  Hypothesis Hode : r2_solved V2.
  Set Default Proof Using "All".
  Notation Dv := (Dv O S).
  Notation sG := (S "s.sG"). Notation spsi := (S "s.spsi"). Notation kap := (S "s.curvature").
  Notation etabar := (S "s.etabar"). Notation X1c := (S "s.X1c"). Notation Y1s := (S "s.Y1s"). Notation Y1c := (S "s.Y1c").
  Notation aGB := (S "s.abs_G0_over_B0"). Notation B0 := (S "s.B0").
  Local Notation F_X1c := (C10_common.F_X1c O HD S VA V1 V2 Hadm HA H1 H2).
  Local Notation F_G0 := (C10_common.F_G0 O HD S VA V1 V2 Hadm HA H1 H2).
  Local Notation F_dldvp := (C10_common.F_dldvp O HD S VA V1 V2 Hadm HA H1 H2).
  Local Notation F_absG0 := (C10_common.F_absG0 O HD S VA V1 V2 Hadm HA H1 H2).
  Local Notation X1c_nz := (C10_common.X1c_nz O HD S VA V1 V2 Hadm HA H1 H2).
  Local Notation F_Y1s := (C10_common.F_Y1s O HD S VA V1 V2 Hadm HA H1 H2).
  Local Notation F_Y1c := (C10_common.F_Y1c O HD S VA V1 V2 Hadm HA H1 H2).
  Local Notation F_dX1c := (C10_common.F_dX1c O HD S VA V1 V2 Hadm HA H1 H2).
  Local Notation F_dY1s := (C10_common.F_dY1s O HD S VA V1 V2 Hadm HA H1 H2).
  Local Notation F_dY1c := (C10_common.F_dY1c O HD S VA V1 V2 Hadm HA H1 H2).
  Local Notation F_dX20 := (C10_common.F_dX20 O HD S VA V1 V2 Hadm HA H1 H2).
  Local Notation F_dX2s := (C10_common.F_dX2s O HD S VA V1 V2 Hadm HA H1 H2).
  Local Notation F_dX2c := (C10_common.F_dX2c O HD S VA V1 V2 Hadm HA H1 H2).
  Local Notation F_dY20 := (C10_common.F_dY20 O HD S VA V1 V2 Hadm HA H1 H2).
  Local Notation F_dY2s := (C10_common.F_dY2s O HD S VA V1 V2 Hadm HA H1 H2).
  Local Notation F_dY2c := (C10_common.F_dY2c O HD S VA V1 V2 Hadm HA H1 H2).
  Local Notation F_dZ20 := (C10_common.F_dZ20 O HD S VA V1 V2 Hadm HA H1 H2).
  Local Notation F_dZ2s := (C10_common.F_dZ2s O HD S VA V1 V2 Hadm HA H1 H2).
  Local Notation F_dZ2c := (C10_common.F_dZ2c O HD S VA V1 V2 Hadm HA H1 H2).
  Local Notation F_dkap := (C10_common.F_dkap O HD S VA V1 V2 Hadm HA H1 H2).
  Local Notation F_dtau := (C10_common.F_dtau O HD S VA V1 V2 Hadm HA H1 H2).
  Local Notation F_d2X1c := (C10_common.F_d2X1c O HD S VA V1 V2 Hadm HA H1 H2).
  Local Notation F_d2Y1s := (C10_common.F_d2Y1s O HD S VA V1 V2 Hadm HA H1 H2).
  Local Notation F_d2Y1c := (C10_common.F_d2Y1c O HD S VA V1 V2 Hadm HA H1 H2).
  Local Notation F_Y2s := (C10_common.F_Y2s O HD S VA V1 V2 Hadm HA H1 H2).
  Local Notation F_Y2c := (C10_common.F_Y2c O HD S VA V1 V2 Hadm HA H1 H2).
  Local Notation sGspsi_const := (C10_common.sGspsi_const O HD S VA V1 V2 Hadm HA H1 H2).
  Local Notation R_XY := (C10_common.R_XY O HD S VA V1 V2 Hadm HA H1 H2).
  Local Notation R_dXY := (C10_common.R_dXY O HD S VA V1 V2 Hadm HA H1 H2).
  Local Notation R_d2XY := (C10_common.R_d2XY O HD S VA V1 V2 Hadm HA H1 H2).
  Local Notation R_kX := (C10_common.R_kX O HD S VA V1 V2 Hadm HA H1 H2).
  Local Notation R_dkX := (C10_common.R_dkX O HD S VA V1 V2 Hadm HA H1 H2).
  Local Notation S_Y1s := (C10_common.S_Y1s O HD S VA V1 V2 Hadm HA H1 H2).
  Local Notation S_dY1s := (C10_common.S_dY1s O HD S VA V1 V2 Hadm HA H1 H2).
  Local Notation S_d2Y1s := (C10_common.S_d2Y1s O HD S VA V1 V2 Hadm HA H1 H2).
  Local Notation S_kap := (C10_common.S_kap O HD S VA V1 V2 Hadm HA H1 H2).
  Local Notation S_dkap := (C10_common.S_dkap O HD S VA V1 V2 Hadm HA H1 H2).
  Local Notation R_Y2s := (C10_common.R_Y2s O HD S VA V1 V2 Hadm HA H1 H2).
  Local Notation R_Y2c := (C10_common.R_Y2c O HD S VA V1 V2 Hadm HA H1 H2).
  Local Notation R_dY2s := (C10_common.R_dY2s O HD S VA V1 V2 Hadm HA H1 H2).
  Local Notation R_dY2c := (C10_common.R_dY2c O HD S VA V1 V2 Hadm HA H1 H2).
  Local Notation sG_nz := (C10_common.sG_nz O HD S VA V1 V2 Hadm HA H1 H2).
  Local Notation spsi_nz := (C10_common.spsi_nz O HD S VA V1 V2 Hadm HA H1 H2).
  Ltac dv_push := dv_push_ O HD.
  Ltac both tac := destruct H2 as [H|H]; [tac calculate_r2_h0 H | tac calculate_r2_hN H].
  Ltac nz := repeat split; first [apply X1c_nz | apply sG_nz | apply spsi_nz | apply (adm_eta S Hadm) | apply (adm_kappa S Hadm)
                                 | apply Rgt_not_eq, (adm_B0 S Hadm) | apply Rgt_not_eq, (adm_lp S Hadm) | lra].
  Ltac fin := rewrite ?F_d2X1c, ?F_d2Y1s, ?F_d2Y1c, ?F_dX1c, ?F_dY1s, ?F_dY1c, ?F_dkap, ?F_dtau; unfold Rdiv; ring.
  Notation tau := (S "s.torsion"). Notation iotaN := (S "s.iotaN").
  Notation dX1c := (S "s.d_X1c_d_varphi"). Notation dY1s := (S "s.d_Y1s_d_varphi"). Notation dY1c := (S "s.d_Y1c_d_varphi").
  Notation d2X1c := (S "s.d2_X1c_d_varphi2"). Notation d2Y1s := (S "s.d2_Y1s_d_varphi2"). Notation d2Y1c := (S "s.d2_Y1c_d_varphi2").
  Local Notation F_p2 := (F_p2 O HD S VA V1 V2 Hadm HA H1 H2 Hcst VR HR Hsig Hvac).
  (* ---- the two O(r^2) differential equations (the residuals of the dense solve), over the object state ---- *)
  Notation X20 := (S "s.X20"). Notation Y20 := (S "s.Y20"). Notation X2s := (S "s.X2s"). Notation X2c := (S "s.X2c").
  Notation Y2s := (S "s.Y2s"). Notation Y2c := (S "s.Y2c"). Notation Z20 := (S "s.Z20"). Notation Z2s := (S "s.Z2s"). Notation Z2c := (S "s.Z2c").
  Notation I2 := (S "s.I2"). Notation beta := (S "s.beta_1s").
  Definition fX0_ (l : R) k := S "s.d_X20_d_varphi" k - tau k * l * Y20 k + kap k * l * Z20 k
      - 4 * sG k * spsi k * l * (Y2c k * Z2s k - Y2s k * Z2c k)
      - spsi k * (I2 k / B0 k) * (kap k * sG k * spsi k / 2 - 2 * Y20 k) * l + l * beta k * Y1c k / 2.
  Definition fXs_ (l : R) k := S "s.d_X2s_d_varphi" k - 2 * iotaN k * X2c k - tau k * l * Y2s k + kap k * l * Z2s k
      - 4 * spsi k * sG k * l * (Y2c k * Z20 k - Y20 k * Z2c k)
      - spsi k * (I2 k / B0 k) * (kap k * spsi k * sG k / 2 - 2 * Y2s k) * l - l * beta k * Y1s k / 2.
  Definition fXc_ (l : R) k := S "s.d_X2c_d_varphi" k + 2 * iotaN k * X2s k - tau k * l * Y2c k + kap k * l * Z2c k
      - 4 * spsi k * sG k * l * (Y20 k * Z2s k - Y2s k * Z20 k)
      - spsi k * (I2 k / B0 k) * (kap k * sG k * spsi k / 2 - 2 * Y2c k) * l - l * beta k * Y1c k / 2.
  Definition fY0_ (l : R) k := S "s.d_Y20_d_varphi" k + tau k * l * X20 k
      - 4 * spsi k * sG k * l * (X2s k * Z2c k - X2c k * Z2s k)
      - spsi k * (I2 k / B0 k) * (- kap k * X1c k * X1c k / 2 + 2 * X20 k) * l - l * beta k * X1c k / 2.
  Definition fYs_ (l : R) k := S "s.d_Y2s_d_varphi" k - 2 * iotaN k * Y2c k + tau k * l * X2s k
      - 4 * spsi k * sG k * l * (X20 k * Z2c k - X2c k * Z20 k)
      - 2 * spsi k * (I2 k / B0 k) * X2s k * l.
  Definition fYc_ (l : R) k := S "s.d_Y2c_d_varphi" k + 2 * iotaN k * Y2s k + tau k * l * X2c k
      - 4 * spsi k * sG k * l * (X2s k * Z20 k - X20 k * Z2s k)
      - spsi k * (I2 k / B0 k) * (- kap k * X1c k * X1c k / 2 + 2 * X2c k) * l + l * beta k * X1c k / 2.
  Definition odeE1 l k := X1c k * fXs_ l k - Y1s k * fY0_ l k + Y1c k * fYs_ l k - Y1s k * fYc_ l k.
  Definition odeE2 l k := - X1c k * fX0_ l k + X1c k * fXc_ l k - Y1c k * fY0_ l k + Y1s k * fYs_ l k + Y1c k * fYc_ l k.
  Ltac to_model H :=
    repeat match goal with
           | |- context [S (String ?a ?b)] => rewrite <- (st_agree _ _ _ _ H (String a b) eq_refl)
           end.
  Ltac ode_prep P H eqn :=
    unfold odeE1, odeE2, fX0_, fXs_, fXc_, fY0_, fYs_, fYc_; to_model H;
    unfold_fixes O P (st_fix _ _ _ _ H)
      (eqn :: "s.d_X20_d_varphi" :: "s.d_X2s_d_varphi" :: "s.d_X2c_d_varphi" :: "s.d_Y20_d_varphi" :: "s.d_Y2s_d_varphi" :: "s.d_Y2c_d_varphi"
       :: "fX0_from_X20" :: "fX0_from_Y20" :: "fX0_inhomogeneous"
       :: "fXs_from_X20" :: "fXs_from_Y20" :: "fXs_inhomogeneous"
       :: "fXc_from_X20" :: "fXc_from_Y20" :: "fXc_inhomogeneous"
       :: "fY0_from_X20" :: "fY0_from_Y20" :: "fY0_inhomogeneous"
       :: "fYs_from_X20" :: "fYs_from_Y20" :: "fYs_inhomogeneous"
       :: "fYc_from_X20" :: "fYc_from_Y20" :: "fYc_inhomogeneous"
       :: "s.X20" :: "X20" :: "s.Y20" :: "Y20" :: "s.Y2s" :: "Y2s" :: "s.Y2c" :: "Y2c" :: "X20" :: "Y20"
       :: "s.X2s" :: "s.X2c" :: "s.Z20" :: "s.Z2s" :: "s.Z2c" :: "s.beta_1s"
       :: "X1c" :: "Y1s" :: "Y1c" :: "torsion" :: "curvature" :: "iota_N" :: "spsi" :: "sG"
       :: "I2_over_B0" :: "abs_G0_over_B0" :: "B0_over_abs_G0" :: nil)%list;
    rewrite !(D_add O (der_lin O HD)); qsimp; unfold Rdiv; ring.
  Lemma R_ode1' k : odeE1 (/ (B0 k / Rabs (S "s.G0" k))) k = 0.
  Proof. destruct Hode as [Ho1 Ho2]. both ltac:(fun P H => rewrite <- (Ho1 k); symmetry; ode_prep P H "solve1_eq0"). Qed.
  Lemma R_ode2' k : odeE2 (/ (B0 k / Rabs (S "s.G0" k))) k = 0.
  Proof. destruct Hode as [Ho1 Ho2]. both ltac:(fun P H => rewrite <- (Ho2 k); symmetry; ode_prep P H "solve1_eq1"). Qed.
  Lemma lp_is_aGB k : / (B0 k / Rabs (S "s.G0" k)) = aGB k.
  Proof. rewrite F_absG0. field. nz. Qed.
  Lemma R_ode1 k : odeE1 (aGB k) k = 0.
  Proof. rewrite <- lp_is_aGB. apply R_ode1'. Qed.
  Lemma R_ode2 k : odeE2 (aGB k) k = 0.
  Proof. rewrite <- lp_is_aGB. apply R_ode2'. Qed.
  Lemma F_beta k : beta k = 0.
  Proof.
    both ltac:(fun P H => rewrite <- (st_agree _ _ _ _ H "s.beta_1s" eq_refl);
      unfold_fixes O P (st_fix _ _ _ _ H) ("s.beta_1s" :: "beta_1s" :: "p2" :: nil)%list; to_state H; rewrite F_p2; unfold Rdiv; ring).
  Qed.
End VacOde.

(* intermediate statements, proved in C10_vacuum_Bt_{a,b,c}.v and C10_vacuum_ode_{a,b}.v and assembled in C10_vacuum.v *)
Section Parts.
  Context {I : Type} (S : string -> I -> R).
  Notation G := (G S).
  (* the entries with a tangential field component: need the definitions of X2s, X2c, B20, G2 *)
  Definition vacuum_Bt_a : Prop := forall i, G 0 0 2 i = G 0 2 0 i.
  Definition vacuum_Bt_b : Prop := forall i, G 1 1 2 i = G 1 2 1 i /\ G 0 0 2 i + G 1 1 2 i + G 2 2 2 i = 0.
  Definition vacuum_Bt_c : Prop := forall i, G 0 1 2 i = G 0 2 1 i /\ G 1 0 2 i = G 1 2 0 i.
  Definition vacuum_ode_a : Prop := forall i, G 0 0 1 i = G 0 1 0 i /\ G 1 0 1 i = G 1 1 0 i.
  Definition vacuum_ode_b : Prop := forall i, G 0 0 0 i + G 1 1 0 i + G 2 2 0 i = 0 /\ G 0 0 1 i + G 1 1 1 i + G 2 2 1 i = 0.
  Definition vacuum_Bt_part : Prop := forall i,
    G 0 0 2 i = G 0 2 0 i /\ G 0 1 2 i = G 0 2 1 i /\ G 1 0 2 i = G 1 2 0 i /\ G 1 1 2 i = G 1 2 1 i
    /\ G 0 0 2 i + G 1 1 2 i + G 2 2 2 i = 0.
  (* the entries that need the two O(r^2) differential equations *)
  Definition vacuum_ode_part : Prop := forall i,
    G 0 0 1 i = G 0 1 0 i /\ G 1 0 1 i = G 1 1 0 i
    /\ G 0 0 0 i + G 1 1 0 i + G 2 2 0 i = 0 /\ G 0 0 1 i + G 1 1 1 i + G 2 2 1 i = 0.
End Parts.
