(* C18 (structural clause): requesting an even nphi gives exactly the construction for nphi + 1.
   The constructor's handling of nphi is extracted from the current source by tools/gen_obj.py
   (G_obj.init_even_nphi = "plus-one" means: `if np.mod(nphi, 2) == 0: nphi += 1` and nothing else touches nphi before it is
   stored); everything the object computes is a function of the STORED parameters (ObjModel: calc : params -> Out). *)
From Coq Require Import Arith Bool String List Lia.
From QSC Require Import ObjModel.
From QSCGen Require Import G_obj.
Open Scope string_scope.

Lemma extracted_rule : G_obj.init_even_nphi = "plus-one". Proof. reflexivity. Qed.

(* the normalisation the source applies *)
Definition norm_nphi (n : nat) : nat := if Nat.even n then S n else n.

Theorem C18_even_is_next_odd : forall n, Nat.even n = true -> norm_nphi n = norm_nphi (S n).
Proof.
  intros n H. unfold norm_nphi. rewrite H. rewrite Nat.even_succ. rewrite <- Nat.negb_even, H. reflexivity.
Qed.

Theorem C18_always_odd : forall n, Nat.odd (norm_nphi n) = true.
Proof.
  intros n. unfold norm_nphi. destruct (Nat.even n) eqn:E.
  - rewrite Nat.odd_succ. exact E.
  - rewrite <- Nat.negb_even, E. reflexivity.
Qed.

Theorem C18_idempotent : forall n, norm_nphi (norm_nphi n) = norm_nphi n.
Proof.
  intros n. pose proof (C18_always_odd n) as H. unfold norm_nphi at 1.
  rewrite <- Nat.negb_odd, H. reflexivity.
Qed.

(* Object level: with the remaining constructor arguments collected in cfg = (nfp, sG, spsi, norm_nphi nphi, order), two constructions that
   differ only by nphi = 2m versus 2m+1 build the same state, hence every output is identical. *)
Section Obj.
  Variables (A Out Rest : Type) (zero : A).
  Variable calc : params A (Rest * nat) -> Out.
  Theorem C18_same_object : forall rc zs rs zc e s0 b2s b2c p2 i2 b0 (rest : Rest) n, Nat.even n = true ->
    init zero calc rc zs rs zc e s0 b2s b2c p2 i2 b0 (rest, norm_nphi n)
    = init zero calc rc zs rs zc e s0 b2s b2c p2 i2 b0 (rest, norm_nphi (S n)).
  Proof. intros. rewrite (C18_even_is_next_odd n H). reflexivity. Qed.
End Obj.
Print Assumptions C18_even_is_next_odd.
Print Assumptions C18_same_object.
