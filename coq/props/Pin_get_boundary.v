(* Source pin: the hand-written model of qsc/plot.py:get_boundary was written and validated (correspondence runs evaluated inside Coq, see DESIGN.md 1.1) against the
   source whose normalised syntax tree has this digest (tools/gen_pins.py).  If the function is edited this obligation fails and the check searches
   for a failing input; after re-validating the model against the new source, regenerate with `tools/gen_pins.py --write-props`. *)
From Coq Require Import String.
From QSCGen Require Import G_pins.
Open Scope string_scope.

Lemma pin_get_boundary_current : pin_get_boundary = "4f8707d8e9f8941d3f578f9a18e6c90c38fe8663319a647490770d9455ca7904".
Proof. reflexivity. Qed.
