(* Executable part of the to_Fourier / get_boundary model of C14_fourier.v: the rational weight of every mode and the
   index maps.  These are what the correspondence check evaluates inside Coq (vm_compute) and compares with the
   implementation's response to unit inputs; the theorems below say that they ARE the model of C14_fourier.v. *)
From Coq Require Import Reals ZArith List Bool Arith Lra Lia.
From QSC Require Import TrigSum.
From QSCProps Require Import C14_fourier.
Import ListNotations.

(* four times (ntheta * nphi) times the weight with which data enter the cosine / sine coefficient (n, m) *)
Definition halvings (ntheta nphi m : nat) (n : Z) : nat :=
  (if Nat.even ntheta && (m =? ntheta / 2)%nat then 1 else 0) + (if Nat.even nphi && (Z.abs_nat n =? nphi / 2)%nat then 1 else 0).
Definition w4 (ntheta nphi m : nat) (n : Z) : nat :=
  match halvings ntheta nphi m n with 0%nat => 8 | 1%nat => 4 | _ => 2 end.
Definition w4C (ntheta nphi m : nat) (n : Z) : nat :=
  if (m =? 0)%nat && (n =? 0)%Z then 4 else if in_loop m n then w4 ntheta nphi m n else 0.
Definition w4S (ntheta nphi m : nat) (n : Z) : nat :=
  if in_loop m n then w4 ntheta nphi m n else 0.

(* array layout: row index i of the (2 ntor + 1) x (mpol + 1) arrays holds n = i - ntor *)
Definition row_n (ntor i : nat) : Z := (Z.of_nat i - Z.of_nat ntor)%Z.
Definition table (w : nat -> Z -> nat) (mpol ntor : nat) : list (list nat) :=
  map (fun i => map (fun m => w m (row_n ntor i)) (seq 0 (mpol + 1))) (seq 0 (2 * ntor + 1)).
(* lasym = False zeroes RBS and ZBC: which of (RBC, RBS, ZBC, ZBS) survive *)
Definition kept (lasym : bool) : list bool := [true; lasym; lasym; true].

Open Scope R_scope.

Lemma factor2_w4 ntheta nphi m n : (1 <= ntheta)%nat -> (1 <= nphi)%nat ->
  factor2 ntheta nphi m n = INR (w4 ntheta nphi m n) / 4 / (INR ntheta * INR nphi).
Proof.
  intros Ht Hp. unfold factor2, factor, w4, halvings.
  assert (INR ntheta <> 0) by (apply INR_pos_neq0; exact Ht).
  assert (INR nphi <> 0) by (apply INR_pos_neq0; exact Hp).
  destruct (Nat.even ntheta && (m =? ntheta / 2)%nat); destruct (Nat.even nphi && (Z.abs_nat n =? nphi / 2)%nat);
    cbn [Nat.add INR]; field; split; assumption.
Qed.

Theorem coefC_weight ntheta nphi nfp F n m : (1 <= ntheta)%nat -> (1 <= nphi)%nat ->
  coefC ntheta nphi nfp F n m
  = gridsum ntheta nphi (fun j k => F j k * cos (angle nfp m n (theta ntheta j) (phi nphi nfp k))
                                     * (INR (w4C ntheta nphi m n) / 4 / (INR ntheta * INR nphi))).
Proof.
  intros Ht Hp. unfold coefC, w4C, gsum2.
  assert (INR ntheta <> 0) by (apply INR_pos_neq0; exact Ht).
  assert (INR nphi <> 0) by (apply INR_pos_neq0; exact Hp).
  destruct ((m =? 0)%nat && (n =? 0)%Z) eqn:E0.
  - apply andb_prop in E0. destruct E0 as [Em En]. apply Nat.eqb_eq in Em. apply Z.eqb_eq in En. subst m n.
    unfold Rdiv at 1. rewrite <- gridsum_scal_r. apply gridsum_ext. intros j k _ _.
    unfold angle. simpl (INR 0). simpl (IZR 0).
    replace (0 * theta ntheta j - 0 * (INR nfp * phi nphi nfp k)) with 0 by ring. rewrite cos_0. simpl (INR 4). field. split; assumption.
  - destruct (in_loop m n).
    + apply gridsum_ext. intros j k _ _. rewrite (factor2_w4 ntheta nphi m n Ht Hp). reflexivity.
    + symmetry. apply gridsum_zero. intros j k _ _. simpl (INR 0). unfold Rdiv. ring.
Qed.

Theorem coefS_weight ntheta nphi nfp F n m : (1 <= ntheta)%nat -> (1 <= nphi)%nat ->
  coefS ntheta nphi nfp F n m
  = gridsum ntheta nphi (fun j k => F j k * sin (angle nfp m n (theta ntheta j) (phi nphi nfp k))
                                     * (INR (w4S ntheta nphi m n) / 4 / (INR ntheta * INR nphi))).
Proof.
  intros Ht Hp. unfold coefS, w4S, gsum2.
  destruct (in_loop m n).
  - apply gridsum_ext. intros j k _ _. rewrite (factor2_w4 ntheta nphi m n Ht Hp). reflexivity.
  - symmetry. apply gridsum_zero. intros j k _ _. simpl (INR 0). unfold Rdiv. ring.
Qed.

(* the inverse series reads row i of the arrays as n = i - ntor *)
Theorem inverse_rows nfp mpol ntor C S t p :
  inverse nfp mpol ntor C S t p
  = rsum (mpol + 1) (fun m => rsum (2 * ntor + 1) (fun i =>
      C (row_n ntor i) m * cos (angle nfp m (row_n ntor i) t p) + S (row_n ntor i) m * sin (angle nfp m (row_n ntor i) t p))).
Proof. reflexivity. Qed.

Theorem kept_spec lasym R2D Z2D ntheta nphi nfp :
  RBC ntheta nphi nfp lasym R2D Z2D = coefC ntheta nphi nfp R2D /\
  ZBS ntheta nphi nfp lasym R2D Z2D = coefS ntheta nphi nfp Z2D /\
  RBS ntheta nphi nfp lasym R2D Z2D = (if nth 1 (kept lasym) false then coefS ntheta nphi nfp R2D else zero2) /\
  ZBC ntheta nphi nfp lasym R2D Z2D = (if nth 2 (kept lasym) false then coefC ntheta nphi nfp Z2D else zero2).
Proof. destruct lasym; repeat split; reflexivity. Qed.

Print Assumptions coefC_weight.
Print Assumptions coefS_weight.
Print Assumptions inverse_rows.
Print Assumptions kept_spec.
