(* Source pin: the hand-written model of qsc/calculate_r1.py:_determine_helicity was written and validated (correspondence runs evaluated inside Coq, see DESIGN.md 1.1) against the
   source whose normalised syntax tree has this digest (tools/gen_pins.py).  If the function is edited this obligation fails and the check searches
   for a failing input; after re-validating the model against the new source, regenerate with `tools/gen_pins.py --write-props`. *)
From Coq Require Import String.
From QSCGen Require Import G_pins.
Open Scope string_scope.

Lemma pin_determine_helicity_current : pin_determine_helicity = "78624516fb091faf0d01bb8c651d592bad9f90f02954e815cb41cee59ba6e4d1".
Proof. reflexivity. Qed.
