(* C07 (symmetry flag): the expression init_axis assigns to self.lasym, pinned as source text (fail-closed: any edit breaks
   [lasym_source]), and its reading: the flag is False exactly for stellarator-symmetric input. *)
From Coq Require Import Reals String List Bool Lra.
From QSCGen Require Import G_facts.
Open Scope string_scope.
Import ListNotations.

Lemma lasym_source : fact_init_axis_lasym_expr =
  "np.max(np.abs(self.rs)) > 0 or np.max(np.abs(self.zc)) > 0 or self.sigma0 != 0 or (self.order != 'r1' and self.B2s != 0)".
Proof. reflexivity. Qed.

Open Scope R_scope.
(* model of that expression: np.max(np.abs(a)) > 0 for a non-empty array *)
Definition maxabs (l : list R) : R := fold_right (fun x m => Rmax (Rabs x) m) 0 l.
Definition Rgtb (a b : R) : bool := if Rlt_dec b a then true else false.
Definition Rneqb (a b : R) : bool := if Req_EM_T a b then false else true.
Definition lasym_model (rs zc : list R) (sigma0 B2s : R) (order_is_r1 : bool) : bool :=
  Rgtb (maxabs rs) 0 || Rgtb (maxabs zc) 0 || Rneqb sigma0 0 || (negb order_is_r1 && Rneqb B2s 0).

Lemma maxabs_nonneg l : 0 <= maxabs l.
Proof. induction l as [|x l IH]; simpl; [lra|]. eapply Rle_trans; [exact IH|apply Rmax_r]. Qed.

Lemma maxabs_zero_iff l : maxabs l = 0 <-> Forall (fun x => x = 0) l.
Proof.
  induction l as [|x l IH]; simpl.
  - split; auto.
  - pose proof (maxabs_nonneg l) as Hl. pose proof (Rabs_pos x) as Hx. split.
    + intros H. assert (Rabs x <= 0) by (rewrite <- H; apply Rmax_l). assert (maxabs l <= 0) by (rewrite <- H; apply Rmax_r).
      constructor.
      * destruct (Req_dec x 0) as [E|E]; [exact E|]. pose proof (Rabs_pos_lt x E). lra.
      * apply IH. lra.
    + intros H. inversion H as [|? ? Hx0 Hl0]; subst. apply IH in Hl0. rewrite Hl0, Rabs_R0. apply Rmax_left. lra.
Qed.

Lemma Rgtb_maxabs l : Rgtb (maxabs l) 0 = false <-> Forall (fun x => x = 0) l.
Proof.
  unfold Rgtb. destruct (Rlt_dec 0 (maxabs l)) as [H|H].
  - split; [discriminate|]. intros HF. apply maxabs_zero_iff in HF. lra.
  - split; [|reflexivity]. intros _. apply maxabs_zero_iff. pose proof (maxabs_nonneg l). lra.
Qed.

(* reported symmetric  <->  rs = 0, zc = 0, sigma0 = 0 and (order r1 or B2s = 0) *)
Theorem C07_lasym_iff rs zc sigma0 B2s r1 :
  lasym_model rs zc sigma0 B2s r1 = false <->
  Forall (fun x => x = 0) rs /\ Forall (fun x => x = 0) zc /\ sigma0 = 0 /\ (r1 = true \/ B2s = 0).
Proof.
  unfold lasym_model. rewrite !orb_false_iff, andb_false_iff, negb_false_iff, !Rgtb_maxabs.
  unfold Rneqb. destruct (Req_EM_T sigma0 0) as [Es|Es]; destruct (Req_EM_T B2s 0) as [Eb|Eb]; intuition (try discriminate; try congruence).
Qed.
Print Assumptions C07_lasym_iff.
