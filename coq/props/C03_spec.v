(* C03: the axis geometry computed by init_axis is the Frenet-Serret geometry of the input curve.
   VA is a model of the program regenerated from init_axis.  The axis jets are its inputs
   "R0_sum", "R0p_sum", ... (the Fourier sums over the harmonics; their term-by-term definition is the
   program init_axis_term).  Vectors have cylindrical components (R, phi, Z) = (_0, _1, _2). *)
From Coq Require Import Reals String List.
From QSC Require Import Expr Shallow.
From QSCGen Require Import G_init_axis G_r1_diagnostics.
Open Scope R_scope.
Open Scope string_scope.

Section Spec.
  Context {I : Type} (O : ops I) (VA : string -> I -> R).
  Notation R0 := (VA "R0_sum"). Notation R0p := (VA "R0p_sum"). Notation R0pp := (VA "R0pp_sum"). Notation R0ppp := (VA "R0ppp_sum").
  Notation Z0 := (VA "Z0_sum"). Notation Z0p := (VA "Z0p_sum"). Notation Z0pp := (VA "Z0pp_sum"). Notation Z0ppp := (VA "Z0ppp_sum").
  Definition vec (name : string) (k : nat) : I -> R :=
    VA (name ++ (if Nat.eqb k 0 then "_0" else if Nat.eqb k 1 then "_1" else "_2")).
  Definition dot (u v : nat -> I -> R) (i : I) : R := u 0%nat i * v 0%nat i + u 1%nat i * v 1%nat i + u 2%nat i * v 2%nat i.
  Definition tvec := vec "s.tangent_cylindrical". Definition nvec := vec "s.normal_cylindrical". Definition bvec := vec "s.binormal_cylindrical".

  (* admissible curve: R0 > 0 (so |dr/dphi| > 0) and non-vanishing curvature *)
  Record admissible_axis : Prop := {
    ax_speed : forall i, 0 < R0 i * R0 i + R0p i * R0p i + Z0p i * Z0p i;
    ax_R0 : forall i, 0 < R0 i;
    ax_kappa : forall i, VA "s.curvature" i <> 0
  }.

  (* (a) right-handed orthonormal frame *)
  Definition orthonormal : Prop := forall i,
    dot tvec tvec i = 1 /\ dot nvec nvec i = 1 /\ dot bvec bvec i = 1 /\
    dot tvec nvec i = 0 /\ dot tvec bvec i = 0 /\ dot nvec bvec i = 0.
  Definition right_handed : Prop := forall i,   (* b = t x n in the (R, phi, Z) orientation *)
    bvec 0%nat i = tvec 1%nat i * nvec 2%nat i - tvec 2%nat i * nvec 1%nat i /\
    bvec 1%nat i = tvec 2%nat i * nvec 0%nat i - tvec 0%nat i * nvec 2%nat i /\
    bvec 2%nat i = tvec 0%nat i * nvec 1%nat i - tvec 1%nat i * nvec 0%nat i.
  (* (b) tangent = (dr/dphi)/(dl/dphi), dl/dphi > 0: direction of increasing phi (its phi-component R0/l' is positive) *)
  Definition tangent_is_dr_dl : Prop := forall i,
    0 < VA "s.d_l_d_phi" i /\ VA "s.d_l_d_phi" i * VA "s.d_l_d_phi" i = R0 i * R0 i + R0p i * R0p i + Z0p i * Z0p i /\
    tvec 0%nat i * VA "s.d_l_d_phi" i = R0p i /\ tvec 1%nat i * VA "s.d_l_d_phi" i = R0 i /\ tvec 2%nat i * VA "s.d_l_d_phi" i = Z0p i /\
    0 < tvec 1%nat i.

  (* (c) Frenet-Serret, continuum: D = d/dphi is a derivation, the jets are the derivatives of each other, and the
     cylindrical unit vectors rotate: d/dphi (a_R, a_phi, a_Z) = (a_R' - a_phi, a_phi' + a_R, a_Z') *)
  Definition jets_consistent : Prop :=
    (forall i, o_D O R0 i = R0p i) /\ (forall i, o_D O R0p i = R0pp i) /\ (forall i, o_D O R0pp i = R0ppp i) /\
    (forall i, o_D O Z0 i = Z0p i) /\ (forall i, o_D O Z0p i = Z0pp i) /\ (forall i, o_D O Z0pp i = Z0ppp i).
  Definition ddl (v : nat -> I -> R) (k : nat) (i : I) : R :=   (* d/dl of a vector field along the axis *)
    match k with
    | 0%nat => (o_D O (v 0%nat) i - v 1%nat i) / VA "s.d_l_d_phi" i
    | 1%nat => (o_D O (v 1%nat) i + v 0%nat i) / VA "s.d_l_d_phi" i
    | _ => o_D O (v 2%nat) i / VA "s.d_l_d_phi" i
    end.
  Definition frenet_serret : Prop := forall i k, (k < 3)%nat ->
    ddl tvec k i = VA "s.curvature" i * nvec k i /\
    ddl nvec k i = - VA "s.curvature" i * tvec k i + VA "s.torsion" i * bvec k i /\
    ddl bvec k i = - VA "s.torsion" i * nvec k i.
  Definition curvature_positive : Prop := forall i, 0 <= VA "s.curvature" i.

  (* (d) discrete bookkeeping: G0 = sG B0 L / (2 pi) *)
  Definition G0_relation : Prop := forall i,
    VA "nphi" i <> 0 -> VA "s.nfp" i <> 0 -> o_sum O (VA "d_l_d_phi") <> 0 ->
    VA "s.G0" i = VA "s.sG" i * VA "s.B0" i * VA "s.axis_length" i / (2 * PI).
  Definition dvarphi_proportional : Prop := forall i,
    VA "s.d_varphi_d_phi" i = VA "s.d_l_d_phi" i * (VA "nphi" i / o_sum O (VA "d_l_d_phi")).
  Definition X1c_def : Prop := forall i, VA "s.X1c" i = VA "s.etabar" i / VA "s.curvature" i.
End Spec.

(* Boozer angle on the discrete grid (I = nat, discrete operators): varphi_cumsum obeys the recurrence recorded by the translator *)
Section Varphi.
  Variable n : nat. Variable Dm : nat -> nat -> R. Variable fmin : (nat -> R) -> R.
  Variable VA : string -> nat -> R.
  Definition cumsum_recurrence : Prop :=
    VA "varphi_cumsum" 0%nat = 0 /\
    forall j, (1 <= j < n)%nat -> VA "varphi_cumsum" j = VA "varphi_cumsum" (j - 1)%nat + (VA "d_l_d_phi" (j - 1)%nat + VA "d_l_d_phi" j).
  Definition varphi_props : Prop :=
    let vp := VA "s.varphi#2" in
    (0 < n)%nat -> (forall j, 0 < VA "d_l_d_phi" j) -> 0 < VA "s.nfp" 0%nat -> 0 < VA "nphi" 0%nat ->
    (forall j, VA "s.nfp" j = VA "s.nfp" 0%nat) -> (forall j, VA "nphi" j = VA "nphi" 0%nat) ->
    vp 0%nat = 0 /\
    (forall j, (j + 1 < n)%nat -> vp j < vp (j + 1)%nat) /\
    (* closing the period: the last point plus the last half-steps reaches 2 pi / nfp *)
    vp (n - 1)%nat + (VA "d_l_d_phi" (n - 1)%nat + VA "d_l_d_phi" 0%nat) * (1 / 2 * VA "d_phi" 0%nat * 2 * PI / VA "axis_length" 0%nat)
      = 2 * PI / VA "s.nfp" 0%nat.
End Varphi.

(* elongation (r1_diagnostics): ratio of the singular values of [[X1s, X1c],[Y1s, Y1c]] *)
Section Elong.
  Context {I : Type} (V1 : string -> I -> R).
  Definition pp i := V1 "s.X1s" i * V1 "s.X1s" i + V1 "s.X1c" i * V1 "s.X1c" i + V1 "s.Y1s" i * V1 "s.Y1s" i + V1 "s.Y1c" i * V1 "s.Y1c" i.
  Definition qq i := V1 "s.X1s" i * V1 "s.Y1c" i - V1 "s.X1c" i * V1 "s.Y1s" i.
  (* squared singular values: roots of s^2 - p s + q^2 *)
  Definition s1sq i := (pp i + sqrt (pp i * pp i - 4 * qq i * qq i)) / 2.
  Definition s2sq i := (pp i - sqrt (pp i * pp i - 4 * qq i * qq i)) / 2.
  Definition elongation_is_sv_ratio : Prop := forall i, qq i <> 0 ->
    s1sq i + s2sq i = pp i /\ s1sq i * s2sq i = qq i * qq i /\ 0 < s2sq i /\
    V1 "s.elongation" i * V1 "s.elongation" i * s2sq i = s1sq i /\ 1 <= V1 "s.elongation" i.
End Elong.

(* Theorems to prove in props/C03.v:
   T1 is_fix O init_axis VA -> admissible_axis VA -> orthonormal VA /\ right_handed VA /\ tangent_is_dr_dl VA /\ curvature_positive VA /\ X1c_def VA
   T2 derivation O -> is_fix .. -> admissible_axis VA -> jets_consistent O VA -> frenet_serret O VA
        (hint: kappa^2 = |dt/dl|^2 gives D(kappa) by Leibniz on kappa*kappa; likewise D(d_l_d_phi) = d2_l_d_phi2; the torsion formula
         of the code equals (r' x r'') . r''' / |r' x r''|^2 in cylindrical components; this is the hardest one -- if the db/dl and dn/dl
         identities do not close, deliver dt/dl = kappa n and say precisely what is missing)
   T3 is_fix .. -> G0_relation O VA /\ dvarphi_proportional O VA
   T4 (discrete) is_fix (disc_ops n Dm fmin) init_axis VA -> cumsum_recurrence n VA -> varphi_props n VA
   T5 is_fix O r1_diagnostics_h0 V1 (and _hN) -> elongation_is_sv_ratio V1 *)
