(* Source pin: the hand-written model of qsc/qsc.py:calculate was written and validated (correspondence runs evaluated inside Coq, see DESIGN.md 1.1) against the
   source whose normalised syntax tree has this digest (tools/gen_pins.py).  If the function is edited this obligation fails and the check searches
   for a failing input; after re-validating the model against the new source, regenerate with `tools/gen_pins.py --write-props`. *)
From Coq Require Import String.
From QSCGen Require Import G_pins.
Open Scope string_scope.

Lemma pin_qsc_calculate_current : pin_qsc_calculate = "e4f6abefe3d8bf2e631ebfd221777e17fd7298167f32ede7828ccaee86cb4257".
Proof. reflexivity. Qed.
