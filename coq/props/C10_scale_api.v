(* C10 (f) scale length and (g) the API variants: any operators. *)
From Coq Require Import Reals String List Lra Lia QArith Qreals FunctionalExtensionality.
From QSC Require Import Expr Shallow.
From QSCGen Require Import G_calculate_grad_grad_B_tensor G_grad_grad_B_tensor_cylindrical G_grad_grad_B_tensor_cartesian.
From QSCProps Require Import C10_spec.
Open Scope R_scope.
Open Scope string_scope.

(* ---------- (f) scale length and (g) the API variants: any operators ---------- *)
Section Variants.
  Context {I : Type} (O : ops I) (S VG VY VC : string -> I -> R).
  Hypothesis HG : stage O calculate_grad_grad_B_tensor S VG.
  Hypothesis HY : stage O grad_grad_B_tensor_cylindrical S VY.
  Hypothesis HC : stage O grad_grad_B_tensor_cartesian S VC.

  (* unfold only the bound names that occur in the goal *)
  Ltac unfold_present P H V :=
    repeat match goal with
           | |- context [V (String ?a ?b)] =>
               let x := constr:(String a b) in
               let d := eval vm_compute in (defn P x) in
               lazymatch d with Some _ => progress (unfold_fix O P (st_fix _ _ _ _ H) x) end
           end.
  Ltac from_state H l :=
    lazymatch l with
    | nil => idtac
    | cons ?x ?l' => rewrite <- (st_agree _ _ _ _ H x eq_refl); from_state H l'
    end.

  Theorem C10_scale_length_p : scale_length O S.
  Proof.
    intros i.
    assert (Hns : VG "norm_squared" i = frob3 S i).
    { unfold frob3, G. cbn [dg append].
      from_state HG ("s.grad_grad_B_0_0_0" :: "s.grad_grad_B_0_0_1" :: "s.grad_grad_B_0_0_2" :: "s.grad_grad_B_0_1_0" :: "s.grad_grad_B_0_1_1" :: "s.grad_grad_B_0_1_2" :: "s.grad_grad_B_0_2_0" :: "s.grad_grad_B_0_2_1" :: "s.grad_grad_B_0_2_2" :: "s.grad_grad_B_1_0_0" :: "s.grad_grad_B_1_0_1" :: "s.grad_grad_B_1_0_2" :: "s.grad_grad_B_1_1_0" :: "s.grad_grad_B_1_1_1" :: "s.grad_grad_B_1_1_2" :: "s.grad_grad_B_1_2_0" :: "s.grad_grad_B_1_2_1" :: "s.grad_grad_B_1_2_2" :: "s.grad_grad_B_2_0_0" :: "s.grad_grad_B_2_0_1" :: "s.grad_grad_B_2_0_2" :: "s.grad_grad_B_2_1_0" :: "s.grad_grad_B_2_1_1" :: "s.grad_grad_B_2_1_2" :: "s.grad_grad_B_2_2_0" :: "s.grad_grad_B_2_2_1" :: "s.grad_grad_B_2_2_2" :: nil)%list.
      unfold_fixes O calculate_grad_grad_B_tensor (st_fix _ _ _ _ HG) ("norm_squared" :: "squared_0_0_0" :: "squared_0_0_1" :: "squared_0_0_2" :: "squared_0_1_0" :: "squared_0_1_1" :: "squared_0_1_2" :: "squared_0_2_0" :: "squared_0_2_1" :: "squared_0_2_2" :: "squared_1_0_0" :: "squared_1_0_1" :: "squared_1_0_2" :: "squared_1_1_0" :: "squared_1_1_1" :: "squared_1_1_2" :: "squared_1_2_0" :: "squared_1_2_1" :: "squared_1_2_2" :: "squared_2_0_0" :: "squared_2_0_1" :: "squared_2_0_2" :: "squared_2_1_0" :: "squared_2_1_1" :: "squared_2_1_2" :: "squared_2_2_0" :: "squared_2_2_1" :: "squared_2_2_2" :: "s.grad_grad_B_0_0_0" :: "s.grad_grad_B_0_0_1" :: "s.grad_grad_B_0_0_2" :: "s.grad_grad_B_0_1_0" :: "s.grad_grad_B_0_1_1" :: "s.grad_grad_B_0_1_2" :: "s.grad_grad_B_0_2_0" :: "s.grad_grad_B_0_2_1" :: "s.grad_grad_B_0_2_2" :: "s.grad_grad_B_1_0_0" :: "s.grad_grad_B_1_0_1" :: "s.grad_grad_B_1_0_2" :: "s.grad_grad_B_1_1_0" :: "s.grad_grad_B_1_1_1" :: "s.grad_grad_B_1_1_2" :: "s.grad_grad_B_1_2_0" :: "s.grad_grad_B_1_2_1" :: "s.grad_grad_B_1_2_2" :: "s.grad_grad_B_2_0_0" :: "s.grad_grad_B_2_0_1" :: "s.grad_grad_B_2_0_2" :: "s.grad_grad_B_2_1_0" :: "s.grad_grad_B_2_1_1" :: "s.grad_grad_B_2_1_2" :: "s.grad_grad_B_2_2_0" :: "s.grad_grad_B_2_2_1" :: "s.grad_grad_B_2_2_2" :: nil)%list.
      reflexivity. }
    assert (Hpos : 0 <= frob3 S i).
    { unfold frob3.
      repeat (apply Rplus_le_le_0_compat; [|apply Rle_0_sqr]). apply Rle_0_sqr. }
    assert (Hinv : S "s.grad_grad_B_inverse_scale_length_vs_varphi" i = sqrt (sqrt (frob3 S i) / (4 * S "s.B0" i))).
    { rewrite <- Hns. rewrite <- (st_agree _ _ _ _ HG "s.grad_grad_B_inverse_scale_length_vs_varphi" eq_refl).
      unfold_fixes O calculate_grad_grad_B_tensor (st_fix _ _ _ _ HG) ("s.grad_grad_B_inverse_scale_length_vs_varphi" :: "B0" :: nil)%list.
      to_state HG. qsimp. reflexivity. }
    assert (Hsq : 0 < S "s.B0" i -> S "s.grad_grad_B_inverse_scale_length_vs_varphi" i * S "s.grad_grad_B_inverse_scale_length_vs_varphi" i * (4 * S "s.B0" i) = sqrt (frob3 S i)).
    { intros HB. rewrite Hinv. rewrite sqrt_sqrt.
      - field. lra.
      - unfold Rdiv. apply Rmult_le_pos; [apply sqrt_pos|]. apply Rlt_le, Rinv_0_lt_compat. lra. }
    split; [|split; [|split]].
    - intros Hnz. rewrite <- (st_agree _ _ _ _ HG "s.L_grad_grad_B" eq_refl).
      unfold_fix O calculate_grad_grad_B_tensor (st_fix _ _ _ _ HG) "s.L_grad_grad_B". to_state HG. qsimp. field. exact Hnz.
    - exact Hsq.
    - intros HB. rewrite (Hsq HB). apply sqrt_sqrt. exact Hpos.
    - rewrite <- (st_agree _ _ _ _ HG "s.grad_grad_B_inverse_scale_length" eq_refl).
      unfold_fix O calculate_grad_grad_B_tensor (st_fix _ _ _ _ HG) "s.grad_grad_B_inverse_scale_length". to_state HG. reflexivity.
  Qed.

  (* KNOWN DEFECT (documented, not repaired): the variant advertised as cylindrical returns the Frenet-frame array *)
  Theorem C10_cylindrical_is_frenet_p : cylindrical_is_frenet S VY.
  Proof.
    intros i a b c Ha Hb Hc. unfold ret, G.
    destruct a as [|[|[|a]]]; try lia; destruct b as [|[|[|b]]]; try lia; destruct c as [|[|[|c]]]; try lia; cbn [dg append];
      unfold_present grad_grad_B_tensor_cylindrical HY VY; to_state HY; reflexivity.
  Qed.

  Theorem C10_cartesian_is_rotation_of_that_p : cartesian_is_rotation_of_that S VC.
  Proof.
    intros i a b c Ha Hb Hc. unfold ret, rotated3, sum3, cyl_in, Qrot.
    destruct a as [|[|[|a]]]; try lia; destruct b as [|[|[|b]]]; try lia; destruct c as [|[|[|c]]]; try lia; cbn [dg append];
      unfold_present grad_grad_B_tensor_cartesian HC VC;
      to_state HC; ring.
  Qed.

  (* composition: fed with the array returned by the "cylindrical" variant, the Cartesian variant is the rotation about Z of the FRENET components *)
  Corollary C10_cartesian_rotates_frenet_p : fed_by VY VC ->
    forall i a b c, (a < 3)%nat -> (b < 3)%nat -> (c < 3)%nat -> ret VC a b c i = rotated3 S (G S) a b c i.
  Proof.
    intros Hfed i a b c Ha Hb Hc. rewrite (C10_cartesian_is_rotation_of_that_p i a b c Ha Hb Hc).
    unfold rotated3, sum3.
    rewrite !Hfed by lia. rewrite !C10_cylindrical_is_frenet_p by lia. reflexivity.
  Qed.
End Variants.
