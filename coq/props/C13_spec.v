(* C13: untwisting, iotaN, prescribed |B|.  V1/V2/V3 are models of r1_diagnostics_hN, calculate_r2_hN, calculate_r3_hN
   (helical axes) and of the _h0 variants (helicity = 0: the untwisted coefficients ARE the twisted ones). *)
From Coq Require Import Reals String List.
From QSC Require Import Expr Shallow.
From QSCGen Require Import G_r1_diagnostics G_calculate_r2 G_calculate_r3 G_B_mag G_solve_sigma_equation.
Open Scope R_scope.
Open Scope string_scope.

Section Spec.
  Context {I : Type} (V : string -> I -> R).
  (* angle by which the helical angle differs from the untwisted one: vartheta = theta - ang,  ang = -helicity*nfp*varphi *)
  Definition ang (i : I) : R := - V "s.helicity" i * V "s.nfp" i * V "s.varphi" i.
  (* the m-th harmonic pair (Ss, Sc) untwisted to (Us, Uc) describes the same function of the poloidal angle *)
  Definition same_harmonic (m : R) (Ss Sc Us Uc : string) : Prop := forall (theta : R) i,
    V Us i * sin (m * theta) + V Uc i * cos (m * theta)
    = V Ss i * sin (m * (theta - ang i)) + V Sc i * cos (m * (theta - ang i)).
  Definition same_m0 (Sn Un : string) : Prop := forall i, V Un i = V Sn i.

  Definition untwist_r1 : Prop :=
    same_harmonic 1 "s.X1s" "s.X1c" "s.X1s_untwisted" "s.X1c_untwisted" /\ same_harmonic 1 "s.Y1s" "s.Y1c" "s.Y1s_untwisted" "s.Y1c_untwisted".
  Definition untwist_r2 : Prop :=
    same_m0 "s.X20" "s.X20_untwisted" /\ same_m0 "s.Y20" "s.Y20_untwisted" /\ same_m0 "s.Z20" "s.Z20_untwisted" /\
    same_harmonic 2 "s.X2s" "s.X2c" "s.X2s_untwisted" "s.X2c_untwisted" /\ same_harmonic 2 "s.Y2s" "s.Y2c" "s.Y2s_untwisted" "s.Y2c_untwisted" /\
    same_harmonic 2 "s.Z2s" "s.Z2c" "s.Z2s_untwisted" "s.Z2c_untwisted".
  Definition untwist_r3 : Prop :=
    same_harmonic 1 "s.X3s1" "s.X3c1" "s.X3s1_untwisted" "s.X3c1_untwisted" /\ same_harmonic 1 "s.Y3s1" "s.Y3c1" "s.Y3s1_untwisted" "s.Y3c1_untwisted" /\
    same_harmonic 1 "s.Z3s1" "s.Z3c1" "s.Z3s1_untwisted" "s.Z3c1_untwisted" /\
    same_harmonic 3 "s.X3s3" "s.X3c3" "s.X3s3_untwisted" "s.X3c3_untwisted" /\ same_harmonic 3 "s.Y3s3" "s.Y3c3" "s.Y3s3_untwisted" "s.Y3c3_untwisted" /\
    same_harmonic 3 "s.Z3s3" "s.Z3c3" "s.Z3s3_untwisted" "s.Z3c3_untwisted".
  (* helicity = 0: identity *)
  Definition untwist_id (pairs : list (string * string)) : Prop := forall a u i, In (a, u) pairs -> V u i = V a i.

  (* prescribed |B| in the helical angle thetaN = theta - (iota - iotaN) * varphi_pos, where varphi_pos is the Boozer toroidal
     position: phi_arg itself (Boozer_toroidal = True) or phi_arg + nu(phi_arg) (cylindrical angle supplied) *)
  Definition Bspec (order2 : bool) (varphi_pos : I -> R) (i : I) : R :=
    let tN := V "theta" i - (V "s.iota" i - V "s.iotaN" i) * varphi_pos i in
    V "s.B0" i * (1 + V "r" i * V "s.etabar" i * cos tN)
    + (if order2 then V "r" i * V "r" i * (V "B20_at_phi" i + V "s.B2c" i * cos (2 * tN) + V "s.B2s" i * sin (2 * tN)) else 0).
  Definition bmag_is_prescribed (order2 boozer : bool) : Prop := forall i,
    V "s.ret" i = Bspec order2 (if boozer then V "phi_arg" else fun k => V "phi_arg" k + V "nu_at_phi" k) i.
End Spec.
(* Theorems (props/C13.v), all from is_fix of the corresponding generated program only:
   T1 untwist_r1 for r1_diagnostics_hN; untwist_r2 for calculate_r2_hN; untwist_r3 for calculate_r3_hN   (sin_minus / cos_minus, then ring;
      beware the code recomputes sinangle/cosangle with 2*angle and 3*angle: names "sinangle#2", ...)
   T2 untwist_id for the three _h0 programs with the full list of (twisted, untwisted) attribute pairs of that order
   T3 bmag_is_prescribed for the four B_mag programs (B_mag_r1_cyl, B_mag_r1_boozer, B_mag_r2_cyl, B_mag_r2_boozer)
   T4 corollary: two models Vc (cyl) and Vb (boozer) of the r2 programs that agree on attributes, r, theta, B20_at_phi and satisfy
      Vb "phi_arg" = Vc "phi_arg" + Vc "nu_at_phi" return the same |B|. *)
