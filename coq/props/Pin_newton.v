(* Source pin: the hand-written model of qsc/newton.py:newton was written and validated (correspondence runs evaluated inside Coq, see DESIGN.md 1.1) against the
   source whose normalised syntax tree has this digest (tools/gen_pins.py).  If the function is edited this obligation fails and the check searches
   for a failing input; after re-validating the model against the new source, regenerate with `tools/gen_pins.py --write-props`. *)
From Coq Require Import String.
From QSCGen Require Import G_pins.
Open Scope string_scope.

Lemma pin_newton_current : pin_newton = "2935302852d74bec6047fce1c599cb43b91e6f530c93d51f8f187586d57bccb9".
Proof. reflexivity. Qed.
