(* Source pin: the hand-written model of qsc/newton.py:newton was written and validated (correspondence runs evaluated inside Coq, see DESIGN.md 1.1) against the
   source whose normalised syntax tree has this digest (tools/gen_pins.py).  If the function is edited this obligation fails and the check searches
   for a failing input; after re-validating the model against the new source, regenerate with `tools/gen_pins.py --write-props`. *)
From Coq Require Import String.
From QSCGen Require Import G_pins.
Open Scope string_scope.

Lemma pin_newton_current : pin_newton = "d61a7eae40a6f75d06fde12dd47b3fbf02f4ce477b2b364bafadb0f64a9d169e".
Proof. reflexivity. Qed.
