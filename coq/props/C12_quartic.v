(* C12(ii): the quartic whose roots calculate_r_singularity hands to numpy's polyroots is a NECESSARY
   condition for a double root (in theta) of the truncated Jacobian

        sqrt(g)/r  ~  ghat(r,theta) = g0 + r g1c cos(theta) + r^2 (g20 + g2s sin(2 theta) + g2c cos(2 theta)).

   For every index type I, every operator structure O (no property of O is used: the bindings involved
   contain no grid operator), every model V of the program generated from the current source
   (Shallow.is_fix), every grid point i and all reals r, c, s with c^2 + s^2 = 1:

        ghat = 0  /\  d ghat / d theta / r = 0
          ->  K0 + K2s sin2t + K2c cos2t + K4s sin4t + K4c cos4t = 0                       (C12_K_relation)
          ->  coefficients[0] + coefficients[1] w + ... + coefficients[4] w^4 = 0, w = sin2t (C12_quartic)

   NO extra hypothesis is needed (r = 0, g1c = 0, vanishing denominators ... are all covered): both steps
   are polynomial ideal memberships, the certificates are the explicit identities [K_certificate] and
   [quartic_certificate] below (found with sympy, checked here by [ring]).

   Ordering of the coefficients: the source stores  coefficients[:,k]  and calls
   np.polynomial.polynomial.polyroots(coefficients[jphi,:]), which takes the coefficients in INCREASING
   degree, so coefficients[:,k] multiplies w^k; this is the ordering proved here ("coefficients_k#2" is the
   final value of column k -- "coefficients_k" is the np.zeros initialisation).  The source comment
   "Do I need to reverse the order of the coefficients?" is thereby answered: no. *)
From Coq Require Import Reals String List Lra QArith Qreals.
From QSC Require Import Expr Shallow.
From QSCGen Require Import G_calculate_r_singularity.
Open Scope R_scope.
Open Scope string_scope.
Import ListNotations.

Lemma ssa_rsing : ssa calculate_r_singularity = true. Proof. vm_compute. reflexivity. Qed.

(* ------------------------------------------------------------------------------------------------ *)
(* 1. Pure real algebra                                                                               *)
(* ------------------------------------------------------------------------------------------------ *)
Section Algebra.
  Variables g0 g1c g20 g2s g2c : R.

  (* the K's, transcribed from the source (the theorems below prove that the program's K's ARE these) *)
  Definition K0_of  := 2*g1c*g1c*g20 - 3*g1c*g1c*g2c + 8*g0*g2c*g2c + 8*g0*g2s*g2s.
  Definition K2s_of := 2*g1c*g1c*g2s.
  Definition K2c_of := -2*g1c*g1c*g20 + 2*g1c*g1c*g2c.
  Definition K4s_of := g1c*g1c*g2s - 16*g0*g2c*g2s.
  Definition K4c_of := g1c*g1c*g2c - 8*g0*g2c*g2c + 8*g0*g2s*g2s.

  Variables r c s : R.
  Definition sin2t := 2*s*c.
  Definition cos2t := c*c - s*s.
  Definition sin4t := 2*sin2t*cos2t.
  Definition cos4t := cos2t*cos2t - sin2t*sin2t.

  (* truncated Jacobian / r, and its theta-derivative / r *)
  Definition ghat  := g0 + r*g1c*c + r*r*(g20 + g2s*sin2t + g2c*cos2t).
  Definition dghat := -g1c*s + 2*r*(g2s*cos2t - g2c*sin2t).

  Definition Krel (K0 K2s K2c K4s K4c : R) := K0 + K2s*sin2t + K2c*cos2t + K4s*sin4t + K4c*cos4t.

  (* multipliers of the certificate *)
  Definition Dd := g2s*cos2t - g2c*sin2t.              (* dghat = -g1c s + 2 r Dd *)
  Definition Aa := g20 + g2s*sin2t + g2c*cos2t.        (* ghat  = g0 + r g1c c + r^2 Aa *)
  Definition m1 := 16*Dd*Dd.
  Definition m2 := -4*(2*Dd*g1c*c + 2*Aa*g1c*s + Aa*dghat).
  Definition m3 := -8*c*c*g0*g2c*g2c - 8*c*c*g0*g2s*g2s + c*c*g1c*g1c*g2c - 4*c*g1c*g1c*g2s*s
                   - 8*g0*g2c*g2c*s*s - 8*g0*g2c*g2c - 8*g0*g2s*g2s*s*s - 8*g0*g2s*g2s
                   - 2*g1c*g1c*g20 + 5*g1c*g1c*g2c*s*s + 3*g1c*g1c*g2c.

  (* CERTIFICATE 1:  Krel = m1 * ghat + m2 * dghat + m3 * (c^2 + s^2 - 1)   (unconditional identity) *)
  Lemma K_certificate :
    Krel K0_of K2s_of K2c_of K4s_of K4c_of = m1 * ghat + m2 * dghat + m3 * (c*c + s*s - 1).
  Proof.
    unfold Krel, K0_of, K2s_of, K2c_of, K4s_of, K4c_of, m1, m2, m3, Dd, Aa, ghat, dghat, sin4t, cos4t, sin2t, cos2t.
    ring.
  Qed.

  Lemma K_relation_pure :
    c*c + s*s = 1 -> ghat = 0 -> dghat = 0 -> Krel K0_of K2s_of K2c_of K4s_of K4c_of = 0.
  Proof. intros H1 H2 H3. rewrite K_certificate, H1, H2, H3. ring. Qed.

  (* the quartic, for arbitrary K's *)
  Section Quartic.
    Variables K0 K2s K2c K4s K4c : R.
    Definition q4 := 4*(K4c*K4c + K4s*K4s).
    Definition q3 := 4*(K4s*K2c - K2s*K4c).
    Definition q2 := K2s*K2s + K2c*K2c - 4*K0*K4c - 4*K4c*K4c - 4*K4s*K4s.
    Definition q1 := 2*K0*K2s + 2*K4c*K2s - 4*K4s*K2c.
    Definition q0 := (K0 + K4c)*(K0 + K4c) - K2c*K2c.
    Definition quartic (w : R) := q0 + q1*w + q2*(w*w) + q3*(w*w*w) + q4*(w*w*w*w).

    (* Krel = P + cos2t * Q  with  P = K0 + K2s w + K4c (1 - 2 w^2),  Q = K2c + 2 K4s w  (mod cos2t^2 + w^2 = 1);
       the quartic is  P^2 - (1 - w^2) Q^2  =  (P + cos2t Q)(P - cos2t Q) + (cos2t^2 + w^2 - 1) Q^2.
       Written with Krel itself as a factor this needs cos4t = 1 - 2 w^2 + (cos2t^2 + w^2 - 1), hence the
       slightly longer multiplier n2. *)
    Definition Pp (w : R) := K0 + K2s*w + K4c*(1 - 2*w*w).
    Definition Qq (w : R) := K2c + 2*K4s*w.
    Definition n1 := Pp sin2t - cos2t * Qq sin2t.                                      (* the conjugate factor *)
    Definition n2 := Qq sin2t * Qq sin2t - K4c * n1.

    (* CERTIFICATE 2:  quartic(sin2t) = n1 * Krel + n2 * (cos2t^2 + sin2t^2 - 1)       (unconditional identity) *)
    Lemma quartic_certificate :
      quartic sin2t = n1 * Krel K0 K2s K2c K4s K4c + n2 * (cos2t*cos2t + sin2t*sin2t - 1).
    Proof. unfold quartic, q0, q1, q2, q3, q4, n2, n1, Pp, Qq, Krel, sin4t, cos4t. ring. Qed.

    Lemma double_angle_one : c*c + s*s = 1 -> cos2t*cos2t + sin2t*sin2t = 1.
    Proof.
      intros H. replace (cos2t*cos2t + sin2t*sin2t) with ((c*c + s*s)*(c*c + s*s)) by (unfold cos2t, sin2t; ring).
      rewrite H. ring.
    Qed.

    Lemma quartic_pure : c*c + s*s = 1 -> Krel K0 K2s K2c K4s K4c = 0 -> quartic sin2t = 0.
    Proof. intros H1 HK. rewrite quartic_certificate, HK, (double_angle_one H1). ring. Qed.
  End Quartic.
End Algebra.

(* ------------------------------------------------------------------------------------------------ *)
(* 2. The generated program                                                                           *)
(* ------------------------------------------------------------------------------------------------ *)
Section Program.
  Context {I : Type} (O : ops I) (V : string -> I -> R).
  Hypothesis HV : is_fix O calculate_r_singularity V.

  (* the program's K's are the source formulas in its own g's *)
  Lemma K_values : forall i,
    V "K0" i  = K0_of  (V "g0" i) (V "g1c" i) (V "g20" i) (V "g2s" i) (V "g2c" i) /\
    V "K2s" i = K2s_of (V "g1c" i) (V "g2s" i) /\
    V "K2c" i = K2c_of (V "g1c" i) (V "g20" i) (V "g2c" i) /\
    V "K4s" i = K4s_of (V "g0" i) (V "g1c" i) (V "g2s" i) (V "g2c" i) /\
    V "K4c" i = K4c_of (V "g0" i) (V "g1c" i) (V "g2s" i) (V "g2c" i).
  Proof.
    intros i. unfold K0_of, K2s_of, K2c_of, K4s_of, K4c_of.
    unfold_fixes O calculate_r_singularity HV ("K0" :: "K2s" :: "K2c" :: "K4s" :: "K4c" :: nil)%list.
    qsimp. repeat split; ring.
  Qed.

  (* the program's coefficient columns are q0..q4 of its own K's *)
  Lemma coefficient_values : forall i,
    V "coefficients_0#2" i = q0 (V "K0" i) (V "K2c" i) (V "K4c" i) /\
    V "coefficients_1#2" i = q1 (V "K0" i) (V "K2s" i) (V "K2c" i) (V "K4s" i) (V "K4c" i) /\
    V "coefficients_2#2" i = q2 (V "K0" i) (V "K2s" i) (V "K2c" i) (V "K4s" i) (V "K4c" i) /\
    V "coefficients_3#2" i = q3 (V "K2s" i) (V "K2c" i) (V "K4s" i) (V "K4c" i) /\
    V "coefficients_4#2" i = q4 (V "K4s" i) (V "K4c" i).
  Proof.
    intros i. unfold q0, q1, q2, q3, q4.
    unfold_fixes O calculate_r_singularity HV
      ("coefficients_0#2" :: "coefficients_1#2" :: "coefficients_2#2" :: "coefficients_3#2" :: "coefficients_4#2" :: nil)%list.
    qsimp. repeat split; ring.
  Qed.

  (* intermediate statement: the K-relation *)
  Theorem C12_K_relation : forall (i : I) (r c s : R),
    c*c + s*s = 1 ->
    V "g0" i + r * V "g1c" i * c
      + r*r*(V "g20" i + V "g2s" i * (2*s*c) + V "g2c" i * (c*c - s*s)) = 0 ->
    - V "g1c" i * s + 2*r*(V "g2s" i * (c*c - s*s) - V "g2c" i * (2*s*c)) = 0 ->
    let sin2t := 2*s*c in let cos2t := c*c - s*s in
    let sin4t := 2*sin2t*cos2t in let cos4t := cos2t*cos2t - sin2t*sin2t in
    V "K0" i + V "K2s" i * sin2t + V "K2c" i * cos2t + V "K4s" i * sin4t + V "K4c" i * cos4t = 0.
  Proof.
    intros i r c s H1 H2 H3. cbv zeta.
    destruct (K_values i) as (E0 & E2s & E2c & E4s & E4c). rewrite E0, E2s, E2c, E4s, E4c.
    exact (K_relation_pure (V "g0" i) (V "g1c" i) (V "g20" i) (V "g2s" i) (V "g2c" i) r c s H1 H2 H3).
  Qed.

  (* main statement: the quartic in w = sin(2 theta), coefficients in increasing degree *)
  Theorem C12_quartic : forall (i : I) (r c s : R),
    c*c + s*s = 1 ->
    V "g0" i + r * V "g1c" i * c
      + r*r*(V "g20" i + V "g2s" i * (2*s*c) + V "g2c" i * (c*c - s*s)) = 0 ->
    - V "g1c" i * s + 2*r*(V "g2s" i * (c*c - s*s) - V "g2c" i * (2*s*c)) = 0 ->
    let w := 2*s*c in
    V "coefficients_0#2" i + V "coefficients_1#2" i * w + V "coefficients_2#2" i * (w*w)
      + V "coefficients_3#2" i * (w*w*w) + V "coefficients_4#2" i * (w*w*w*w) = 0.
  Proof.
    intros i r c s H1 H2 H3. cbv zeta.
    pose proof (C12_K_relation i r c s H1 H2 H3) as HK. cbv zeta in HK.
    destruct (coefficient_values i) as (E0 & E1 & E2 & E3 & E4). rewrite E0, E1, E2, E3, E4.
    exact (quartic_pure c s (V "K0" i) (V "K2s" i) (V "K2c" i) (V "K4s" i) (V "K4c" i) H1 HK).
  Qed.

  (* the quartic follows from the K-relation alone (this is the step the root selection relies on:
     every (sin2t, cos2t) on the unit circle satisfying the K-relation has sin2t among the quartic's roots) *)
  Theorem C12_quartic_of_K : forall (i : I) (S2 C2 : R),
    C2*C2 + S2*S2 = 1 ->
    V "K0" i + V "K2s" i * S2 + V "K2c" i * C2 + V "K4s" i * (2*S2*C2) + V "K4c" i * (1 - 2*S2*S2) = 0 ->
    V "coefficients_0#2" i + V "coefficients_1#2" i * S2 + V "coefficients_2#2" i * (S2*S2)
      + V "coefficients_3#2" i * (S2*S2*S2) + V "coefficients_4#2" i * (S2*S2*S2*S2) = 0.
  Proof.
    intros i S2 C2 H1 HK.
    destruct (coefficient_values i) as (E0 & E1 & E2 & E3 & E4). rewrite E0, E1, E2, E3, E4.
    unfold q0, q1, q2, q3, q4.
    set (K0 := V "K0" i) in *; set (K2s := V "K2s" i) in *; set (K2c := V "K2c" i) in *;
    set (K4s := V "K4s" i) in *; set (K4c := V "K4c" i) in *.
    (* quartic = (P - C2 Q) * Krel' + Q^2 * (C2^2 + S2^2 - 1) *)
    replace (_ + _ + _ + _ + _) with
      (((K0 + K2s*S2 + K4c*(1 - 2*S2*S2)) - C2*(K2c + 2*K4s*S2))
         * (K0 + K2s*S2 + K2c*C2 + K4s*(2*S2*C2) + K4c*(1 - 2*S2*S2))
       + (K2c + 2*K4s*S2)*(K2c + 2*K4s*S2) * (C2*C2 + S2*S2 - 1)) by ring.
    rewrite HK, H1. ring.
  Qed.
End Program.

(* closed corollaries: the final environment of any run of the translated function *)
Theorem C12_quartic_run : forall (I : Type) (O : ops I) (rho : @envG I) (i : I) (r c s : R),
  let V := runG O calculate_r_singularity rho in
  c*c + s*s = 1 ->
  V "g0" i + r * V "g1c" i * c
    + r*r*(V "g20" i + V "g2s" i * (2*s*c) + V "g2c" i * (c*c - s*s)) = 0 ->
  - V "g1c" i * s + 2*r*(V "g2s" i * (c*c - s*s) - V "g2c" i * (2*s*c)) = 0 ->
  let w := 2*s*c in
  V "coefficients_0#2" i + V "coefficients_1#2" i * w + V "coefficients_2#2" i * (w*w)
    + V "coefficients_3#2" i * (w*w*w) + V "coefficients_4#2" i * (w*w*w*w) = 0.
Proof.
  intros I O rho i r c s V. apply (C12_quartic O V). apply runG_is_fix, ssa_rsing.
Qed.

Print Assumptions C12_K_relation.
Print Assumptions C12_quartic.
Print Assumptions C12_quartic_of_K.
Print Assumptions C12_quartic_run.
