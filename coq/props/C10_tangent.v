(* C10 (e) tangent contraction = arclength derivative of the grad B tensor (with the Frenet-Serret rotation of the frame),
   and of (c) the tangent slice a = 2 for any current (needs the sigma equation and its derivative). *)
From Coq Require Import Reals String List Lra Lia QArith Qreals FunctionalExtensionality.
From QSC Require Import Expr Shallow.
From QSCGen Require Import G_init_axis G_r1_diagnostics G_calculate_r2 G_residual G_calculate_grad_grad_B_tensor G_calculate_grad_B_tensor.
From QSCProps Require Import C10_spec C10_common.
Open Scope R_scope.
Open Scope string_scope.

Section Part.
  Context {I : Type} (O : ops I) (HD : derivation O) (S VA V1 V2 : string -> I -> R).
  Hypothesis Hadm : admissible S.
  Hypothesis HA : stage O init_axis S VA.
  Hypothesis H1 : stage O r1_diagnostics_h0 S V1 \/ stage O r1_diagnostics_hN S V1.
  Hypothesis H2 : stage O calculate_r2_h0 S V2 \/ stage O calculate_r2_hN S V2.
  Notation Dv := (Dv O S).
  Notation sG := (S "s.sG"). Notation spsi := (S "s.spsi"). Notation kap := (S "s.curvature").
  Notation etabar := (S "s.etabar"). Notation X1c := (S "s.X1c"). Notation Y1s := (S "s.Y1s"). Notation Y1c := (S "s.Y1c").
  Notation aGB := (S "s.abs_G0_over_B0"). Notation B0 := (S "s.B0").
  Local Notation F_X1c := (C10_common.F_X1c O HD S VA V1 V2 Hadm HA H1 H2).
  Local Notation F_G0 := (C10_common.F_G0 O HD S VA V1 V2 Hadm HA H1 H2).
  Local Notation F_dldvp := (C10_common.F_dldvp O HD S VA V1 V2 Hadm HA H1 H2).
  Local Notation F_absG0 := (C10_common.F_absG0 O HD S VA V1 V2 Hadm HA H1 H2).
  Local Notation X1c_nz := (C10_common.X1c_nz O HD S VA V1 V2 Hadm HA H1 H2).
  Local Notation F_Y1s := (C10_common.F_Y1s O HD S VA V1 V2 Hadm HA H1 H2).
  Local Notation F_Y1c := (C10_common.F_Y1c O HD S VA V1 V2 Hadm HA H1 H2).
  Local Notation F_dX1c := (C10_common.F_dX1c O HD S VA V1 V2 Hadm HA H1 H2).
  Local Notation F_dY1s := (C10_common.F_dY1s O HD S VA V1 V2 Hadm HA H1 H2).
  Local Notation F_dY1c := (C10_common.F_dY1c O HD S VA V1 V2 Hadm HA H1 H2).
  Local Notation F_dX20 := (C10_common.F_dX20 O HD S VA V1 V2 Hadm HA H1 H2).
  Local Notation F_dX2s := (C10_common.F_dX2s O HD S VA V1 V2 Hadm HA H1 H2).
  Local Notation F_dX2c := (C10_common.F_dX2c O HD S VA V1 V2 Hadm HA H1 H2).
  Local Notation F_dY20 := (C10_common.F_dY20 O HD S VA V1 V2 Hadm HA H1 H2).
  Local Notation F_dY2s := (C10_common.F_dY2s O HD S VA V1 V2 Hadm HA H1 H2).
  Local Notation F_dY2c := (C10_common.F_dY2c O HD S VA V1 V2 Hadm HA H1 H2).
  Local Notation F_dZ20 := (C10_common.F_dZ20 O HD S VA V1 V2 Hadm HA H1 H2).
  Local Notation F_dZ2s := (C10_common.F_dZ2s O HD S VA V1 V2 Hadm HA H1 H2).
  Local Notation F_dZ2c := (C10_common.F_dZ2c O HD S VA V1 V2 Hadm HA H1 H2).
  Local Notation F_dkap := (C10_common.F_dkap O HD S VA V1 V2 Hadm HA H1 H2).
  Local Notation F_dtau := (C10_common.F_dtau O HD S VA V1 V2 Hadm HA H1 H2).
  Local Notation F_d2X1c := (C10_common.F_d2X1c O HD S VA V1 V2 Hadm HA H1 H2).
  Local Notation F_d2Y1s := (C10_common.F_d2Y1s O HD S VA V1 V2 Hadm HA H1 H2).
  Local Notation F_d2Y1c := (C10_common.F_d2Y1c O HD S VA V1 V2 Hadm HA H1 H2).
  Local Notation F_Y2s := (C10_common.F_Y2s O HD S VA V1 V2 Hadm HA H1 H2).
  Local Notation F_Y2c := (C10_common.F_Y2c O HD S VA V1 V2 Hadm HA H1 H2).
  Local Notation sGspsi_const := (C10_common.sGspsi_const O HD S VA V1 V2 Hadm HA H1 H2).
  Local Notation R_XY := (C10_common.R_XY O HD S VA V1 V2 Hadm HA H1 H2).
  Local Notation R_dXY := (C10_common.R_dXY O HD S VA V1 V2 Hadm HA H1 H2).
  Local Notation R_d2XY := (C10_common.R_d2XY O HD S VA V1 V2 Hadm HA H1 H2).
  Local Notation R_kX := (C10_common.R_kX O HD S VA V1 V2 Hadm HA H1 H2).
  Local Notation R_dkX := (C10_common.R_dkX O HD S VA V1 V2 Hadm HA H1 H2).
  Local Notation S_Y1s := (C10_common.S_Y1s O HD S VA V1 V2 Hadm HA H1 H2).
  Local Notation S_dY1s := (C10_common.S_dY1s O HD S VA V1 V2 Hadm HA H1 H2).
  Local Notation S_d2Y1s := (C10_common.S_d2Y1s O HD S VA V1 V2 Hadm HA H1 H2).
  Local Notation S_kap := (C10_common.S_kap O HD S VA V1 V2 Hadm HA H1 H2).
  Local Notation S_dkap := (C10_common.S_dkap O HD S VA V1 V2 Hadm HA H1 H2).
  Local Notation R_Y2s := (C10_common.R_Y2s O HD S VA V1 V2 Hadm HA H1 H2).
  Local Notation R_Y2c := (C10_common.R_Y2c O HD S VA V1 V2 Hadm HA H1 H2).
  Local Notation R_dY2s := (C10_common.R_dY2s O HD S VA V1 V2 Hadm HA H1 H2).
  Local Notation R_dY2c := (C10_common.R_dY2c O HD S VA V1 V2 Hadm HA H1 H2).
  Local Notation sG_nz := (C10_common.sG_nz O HD S VA V1 V2 Hadm HA H1 H2).
  Local Notation spsi_nz := (C10_common.spsi_nz O HD S VA V1 V2 Hadm HA H1 H2).
  Ltac dv_push := dv_push_ O HD.
  Ltac both tac := destruct H2 as [H|H]; [tac calculate_r2_h0 H | tac calculate_r2_hN H].
  Ltac nz := repeat split; first [apply X1c_nz | apply sG_nz | apply spsi_nz | apply (adm_eta S Hadm) | apply (adm_kappa S Hadm)
                                 | apply Rgt_not_eq, (adm_B0 S Hadm) | apply Rgt_not_eq, (adm_lp S Hadm) | lra].
  Ltac fin := rewrite ?F_d2X1c, ?F_d2Y1s, ?F_d2Y1c, ?F_dX1c, ?F_dY1s, ?F_dY1c, ?F_dkap, ?F_dtau; unfold Rdiv; ring.
  (* ---- the tensor entries ---- *)
  Variable VG : string -> I -> R.
  Hypothesis HG : stage O calculate_grad_grad_B_tensor S VG.
  Ltac gg_locals := unfold_fixes O calculate_grad_grad_B_tensor (st_fix _ _ _ _ HG)
    ("X1c" :: "Y1s" :: "Y1c" :: "X20" :: "X2s" :: "X2c" :: "Y20" :: "Y2s" :: "Y2c" :: "Z20" :: "Z2s" :: "Z2c" :: "iota_N0" :: "iota" :: "lp" :: "curvature" :: "torsion" :: "sign_G" :: "sign_psi" :: "B0" :: "G0" :: "I2" :: "G2" :: "p2" :: "B20" :: "B2s" :: "B2c" :: "d_X1c_d_varphi" :: "d_Y1s_d_varphi" :: "d_Y1c_d_varphi" :: "d_X20_d_varphi" :: "d_X2s_d_varphi" :: "d_X2c_d_varphi" :: "d_Y20_d_varphi" :: "d_Y2s_d_varphi" :: "d_Y2c_d_varphi" :: "d_Z20_d_varphi" :: "d_Z2s_d_varphi" :: "d_Z2c_d_varphi" :: "d2_X1c_d_varphi2" :: "d2_Y1s_d_varphi2" :: "d2_Y1c_d_varphi2" :: "d_curvature_d_varphi" :: "d_torsion_d_varphi" :: nil)%list.
  (* S "s.grad_grad_B.." i  -->  its formula over the object state *)
  Ltac gg_entry a l :=
    rewrite <- (st_agree _ _ _ _ HG a eq_refl);
    unfold_fixes O calculate_grad_grad_B_tensor (st_fix _ _ _ _ HG) (a :: l :: nil)%list.
  Ltac close i :=
    rewrite ?R_dY2s, ?R_dY2c, ?R_Y2s, ?R_Y2c, ?S_d2Y1s, ?S_dY1s, ?S_Y1s, ?S_dkap, ?S_kap, ?F_absG0, ?F_G0;
    pose proof (adm_sG S Hadm i) as Es; pose proof (adm_spsi S Hadm i) as Ep;
    qsimp; field [Es Ep]; nz.
  Ltac two a b c d :=
    intros i; gg_entry a b; gg_entry c d; gg_locals; to_state HG; close i.
  (* ---- (e) tangent contraction ---- *)
  Variable VT : string -> I -> R.
  Hypothesis HT : stage O calculate_grad_B_tensor S VT.
  Hypothesis Hcst : constants S.
  Notation fct := (fun i => spsi i * B0 i / S "s.d_l_d_varphi" i).
  Ltac T_fun nm :=
    unfold_fixes O calculate_grad_B_tensor (st_fix _ _ _ _ HT) (nm :: "tensor.tn" :: "factor" :: nil)%list; to_state HT.
  Ltac consts i :=
    let c1 := fresh "c" in let c2 := fresh "c" in let c3 := fresh "c" in let c4 := fresh "c" in let c5 := fresh "c" in
    let E1 := fresh "E" in let E2 := fresh "E" in let E3 := fresh "E" in let E4 := fresh "E" in let E5 := fresh "E" in
    destruct (adm_sG_const S Hadm) as [c1 E1]; destruct (adm_spsi_const S Hadm) as [c2 E2];
    destruct (cst_B0 S Hcst) as [c3 E3]; destruct (cst_iotaN S Hcst) as [c4 E4];
    let E6 := fresh "E" in destruct (cst_lp S Hcst) as [c5 E6];
    assert (E5 : S "s.d_l_d_varphi" = fun _ => c5) by
      (apply functional_extensionality; intros k; rewrite F_dldvp, E6; reflexivity);
    rewrite ?E1, ?E2, ?E3, ?E4, ?E5; cbv beta.
  Lemma D_T_tn i : Dv (VT "tensor.tn") i = sG i * B0 i * S "s.d_curvature_d_varphi" i.
  Proof. T_fun "tensor.tn". consts i. dv_push. fin. Qed.
  Lemma D_T_nt i : Dv (VT "tensor.nt") i = sG i * B0 i * S "s.d_curvature_d_varphi" i.
  Proof. T_fun "tensor.nt". consts i. dv_push. fin. Qed.
  Lemma D_T_nn i : Dv (VT "tensor.nn") i = fct i * (S "s.d2_X1c_d_varphi2" i * Y1s i + S "s.d_X1c_d_varphi" i * S "s.d_Y1s_d_varphi" i
       + S "s.iotaN" i * (S "s.d_X1c_d_varphi" i * Y1c i + X1c i * S "s.d_Y1c_d_varphi" i)).
  Proof. T_fun "tensor.nn". consts i. dv_push. fin. Qed.
  Lemma D_T_bb i : Dv (VT "tensor.bb") i = fct i * (S "s.d_X1c_d_varphi" i * S "s.d_Y1s_d_varphi" i + X1c i * S "s.d2_Y1s_d_varphi2" i
       - S "s.iotaN" i * (S "s.d_X1c_d_varphi" i * Y1c i + X1c i * S "s.d_Y1c_d_varphi" i)).
  Proof. T_fun "tensor.bb". consts i. dv_push. fin. Qed.
  Lemma D_T_bn i : Dv (VT "tensor.bn") i = fct i * (- sG i * spsi i * S "s.d_l_d_varphi" i * S "s.d_torsion_d_varphi" i
       - S "s.iotaN" i * (2 * X1c i * S "s.d_X1c_d_varphi" i)).
  Proof. T_fun "tensor.bn". consts i. dv_push. fin. Qed.
  Lemma D_T_nb i : Dv (VT "tensor.nb") i = fct i * (S "s.d2_Y1c_d_varphi2" i * Y1s i - S "s.d2_Y1s_d_varphi2" i * Y1c i
       + sG i * spsi i * S "s.d_l_d_varphi" i * S "s.d_torsion_d_varphi" i
       + S "s.iotaN" i * (2 * Y1s i * S "s.d_Y1s_d_varphi" i + 2 * Y1c i * S "s.d_Y1c_d_varphi" i)).
  Proof. T_fun "tensor.nb". consts i. dv_push. fin. Qed.
  (* pointwise values of the grad B tensor *)
  Ltac T_vals := unfold_fixes O calculate_grad_B_tensor (st_fix _ _ _ _ HT)
     ("tensor.nn" :: "tensor.nb" :: "tensor.nt" :: "tensor.bn" :: "tensor.bb" :: "tensor.tn" :: "factor" :: nil)%list; to_state HT.
  Ltac tang a l :=
    intros i; gg_entry a l; gg_locals; to_state HG;
    cbv beta iota delta [dTdl ddl T W];
    rewrite ?D_T_nn, ?D_T_nb, ?D_T_nt, ?D_T_bn, ?D_T_bb, ?D_T_tn, ?(Dv_cst O HD S); T_vals; rewrite ?F_dldvp; close i.
  Lemma tan_00 : forall i, S "s.grad_grad_B_2_0_0" i = dTdl O S VT 0 0 i.
  Proof. tang "s.grad_grad_B_2_0_0" "grad_grad_B_2_0_0#2". Qed.
  Lemma tan_01 : forall i, S "s.grad_grad_B_2_0_1" i = dTdl O S VT 0 1 i.
  Proof. tang "s.grad_grad_B_2_0_1" "grad_grad_B_2_0_1#2". Qed.
  Lemma tan_02 : forall i, S "s.grad_grad_B_2_0_2" i = dTdl O S VT 0 2 i.
  Proof. tang "s.grad_grad_B_2_0_2" "grad_grad_B_2_0_2#2". Qed.
  Lemma tan_10 : forall i, S "s.grad_grad_B_2_1_0" i = dTdl O S VT 1 0 i.
  Proof. tang "s.grad_grad_B_2_1_0" "grad_grad_B_2_1_0#2". Qed.
  Lemma tan_11 : forall i, S "s.grad_grad_B_2_1_1" i = dTdl O S VT 1 1 i.
  Proof. tang "s.grad_grad_B_2_1_1" "grad_grad_B_2_1_1#2". Qed.
  Lemma tan_12 : forall i, S "s.grad_grad_B_2_1_2" i = dTdl O S VT 1 2 i.
  Proof. tang "s.grad_grad_B_2_1_2" "grad_grad_B_2_1_2#2". Qed.
  Lemma tan_20 : forall i, S "s.grad_grad_B_2_2_0" i = dTdl O S VT 2 0 i.
  Proof. tang "s.grad_grad_B_2_2_0" "grad_grad_B_2_2_0#2". Qed.
  Lemma tan_21 : forall i, S "s.grad_grad_B_2_2_1" i = dTdl O S VT 2 1 i.
  Proof. tang "s.grad_grad_B_2_2_1" "grad_grad_B_2_2_1#2". Qed.
  Lemma tan_22 : forall i, S "s.grad_grad_B_2_2_2" i = dTdl O S VT 2 2 i.
  Proof. tang "s.grad_grad_B_2_2_2" "grad_grad_B_2_2_2#2". Qed.
  Theorem C10_tangent_contraction_p : tangent_contraction O S VT.
  Proof.
    intros i a b Ha Hb. unfold G.
    destruct a as [|[|[|a]]]; try lia; destruct b as [|[|[|b]]]; try lia;
      first [apply tan_00|apply tan_01|apply tan_02|apply tan_10|apply tan_11|apply tan_12|apply tan_20|apply tan_21|apply tan_22].
  Qed.
  (* ---- (c), tangent slice only: the sigma equation and its derivative ---- *)
  Variable VR : string -> I -> R.
  Hypothesis HR : stage O residual S VR.
  Hypothesis Hsig : sigma_solved O S VR.
  Local Notation F_ebc := (C10_common.F_ebc O HD S VA V1 V2 Hadm HA H1 H2 Hcst VR HR Hsig).
  Local Notation S_sigma := (C10_common.S_sigma O HD S VA V1 V2 Hadm HA H1 H2 Hcst VR HR Hsig).
  Local Notation R_sig := (C10_common.R_sig O HD S VA V1 V2 Hadm HA H1 H2 Hcst VR HR Hsig).
  Local Notation R_sig2 := (C10_common.R_sig2 O HD S VA V1 V2 Hadm HA H1 H2 Hcst VR HR Hsig).
  Local Notation S_dY1c := (C10_common.S_dY1c O HD S VA V1 V2 Hadm HA H1 H2 Hcst VR HR Hsig).
  Local Notation S_d2Y1c := (C10_common.S_d2Y1c O HD S VA V1 V2 Hadm HA H1 H2 Hcst VR HR Hsig).
  Local Notation sigE := (C10_common.sigE S).
  Local Notation sigE2 := (C10_common.sigE2 S).
  Ltac close2 i := rewrite ?S_d2Y1c, ?S_dY1c; close i.
  Lemma sl_201 : forall i, S "s.grad_grad_B_2_0_1" i = S "s.grad_grad_B_2_1_0" i.
  Proof. intros i; gg_entry "s.grad_grad_B_2_0_1" "grad_grad_B_2_0_1#2"; gg_entry "s.grad_grad_B_2_1_0" "grad_grad_B_2_1_0#2"; gg_locals; to_state HG; close2 i. Qed.
  Lemma sl_202 : forall i, S "s.grad_grad_B_2_0_2" i = S "s.grad_grad_B_2_2_0" i.
  Proof. intros i; gg_entry "s.grad_grad_B_2_0_2" "grad_grad_B_2_0_2#2"; gg_entry "s.grad_grad_B_2_2_0" "grad_grad_B_2_2_0#2"; gg_locals; to_state HG; close2 i. Qed.
  Lemma sl_212 : forall i, S "s.grad_grad_B_2_1_2" i - S "s.grad_grad_B_2_2_1" i = 2 * sG i * spsi i * S "s.I2" i * kap i.
  Proof. intros i; gg_entry "s.grad_grad_B_2_1_2" "grad_grad_B_2_1_2#2"; gg_entry "s.grad_grad_B_2_2_1" "grad_grad_B_2_2_1#2"; gg_locals; to_state HG; close2 i. Qed.
  Theorem C10_tangent_slice_curl_p : tangent_slice_curl S.
  Proof. intros i. unfold G. split; [apply sl_201|split; [apply sl_202|apply sl_212]]. Qed.
  Theorem C10_vacuum_tangent_slice_symmetric_p : vacuum_tangent_slice_symmetric S.
  Proof.
    intros HI i b c Hb Hc. destruct (C10_tangent_slice_curl_p i) as (E1 & E2 & E3). rewrite HI in E3.
    destruct b as [|[|[|b]]]; try lia; destruct c as [|[|[|c]]]; try lia; first [reflexivity|assumption|symmetry; assumption|lra].
  Qed.
End Part.
