(* C01 (split for parallel compilation): second order claims rad[r^1], pol[r^3], tor[r^2], jac[r^2] *)
From Coq Require Import Reals String List Lra Lia QArith Qreals FunctionalExtensionality.
From QSC Require Import Expr Shallow Series.
From QSCGen Require Import G_init_axis G_r1_diagnostics G_residual G_calculate_r2 G_calculate_r3.
From QSCProps Require Import C04_spec C01_spec C01_common C01_r1 C01_r2base.
Open Scope R_scope.
Open Scope string_scope.

Section R2a.
  Context {I : Type} (O : ops I) (S : string -> I -> R).
  Hypothesis HD : derivation O.
  Hypothesis HA : axis_facts S.
  Hypothesis HR : r1_facts O S.
  Hypothesis H2 : r2_facts O S.
  Hypothesis Hadm : admissible S.
  Hypothesis Hsig : forall i, sigma_residual O S i = 0.
  Variable i : I.
  Variable b : atoms.
  Let CF : cfacts S i := cfacts_hold O S HD HA HR H2 Hadm Hsig i.
  Notation spsi := (S "s.spsi"). Notation B0 := (S "s.B0").

  Lemma rad1 : tzero (rad (with_second_order S i b) 1%nat).
  Proof. start_at S Hadm CF i b. split_coefs; pose_Z CF; fin_at S i. Qed.
  Lemma pol3 : tzero (pol (with_second_order S i b) 3%nat).
  Proof.
    pose proof (cf_K _ _ CF) as K.
    start_at S Hadm CF i b. split_coefs; [exact K | |]; pose_Z CF; fin_at S i.
  Qed.
  Lemma tor2 : tzero (tor (with_second_order S i b) 2%nat).
  Proof. start_at S Hadm CF i b. compute_coef. dsigns_at S Hadm i; pose_common CF; abs_atoms S i; subst; solve_all. Qed.
  Lemma jac2 : tzero (jac (with_second_order S i b) 2%nat).
  Proof. start_at S Hadm CF i b. compute_coef. dsigns_at S Hadm i; pose_common CF; abs_atoms S i; subst; solve_all. Qed.
End R2a.
