(* C15 (content clauses): the scalar physics written into the VMEC input file, on the program regenerated
   from to_vmec (only PHIEDGE, the pressure coefficients AM and CURTOR are modelled; mode logic and the text
   layer are validated by parsing the written file back).  S is the object state; Bbar comes from init_axis. *)
From Coq Require Import Reals String List Lra QArith Qreals.
From QSC Require Import Expr Shallow.
From QSCGen Require Import G_to_vmec G_init_axis.
Open Scope R_scope.
Open Scope string_scope.

Lemma ssa_vmec : ssa to_vmec_scalars = true. Proof. vm_compute. reflexivity. Qed.

Section C15.
  Context {I : Type} (O : ops I) (S VA VV : string -> I -> R).
  Hypothesis HA : stage O init_axis S VA.
  Hypothesis HV : stage O to_vmec_scalars S VV.
  Hypothesis Hspsi : forall i, S "s.spsi" i * S "s.spsi" i = 1.

  Lemma Bbar_def : forall i, S "s.Bbar" i = S "s.spsi" i * S "s.B0" i.
  Proof.
    intros i. rewrite <- (st_agree _ _ _ _ HA "s.Bbar" eq_refl).
    unfold_fix O init_axis (st_fix _ _ _ _ HA) "s.Bbar".
    rewrite (st_agree _ _ _ _ HA "s.spsi" eq_refl), (st_agree _ _ _ _ HA "s.B0" eq_refl). reflexivity.
  Qed.

  (* PHIEDGE = pi r^2 B0 (so |PHIEDGE| = pi r^2 B0 for B0 > 0), whatever the sign conventions *)
  Theorem C15_phiedge : forall i, VV "phiedge" i = PI * VV "r" i * VV "r" i * S "s.B0" i.
  Proof.
    intros i. unfold_fix O to_vmec_scalars (st_fix _ _ _ _ HV) "phiedge".
    rewrite (st_agree _ _ _ _ HV "s.spsi" eq_refl), (st_agree _ _ _ _ HV "s.Bbar" eq_refl), Bbar_def.
    replace (PI * VV "r" i * VV "r" i * S "s.spsi" i * (S "s.spsi" i * S "s.B0" i))
      with (PI * VV "r" i * VV "r" i * S "s.B0" i * (S "s.spsi" i * S "s.spsi" i)) by ring.
    rewrite Hspsi. ring.
  Qed.

  (* CURTOR = 2 pi I2 r^2 / mu0 *)
  Theorem C15_curtor : forall i, VV "curtor" i = 2 * PI * S "s.I2" i * VV "r" i * VV "r" i / mu0R.
  Proof.
    intros i. unfold_fix O to_vmec_scalars (st_fix _ _ _ _ HV) "curtor".
    rewrite (st_agree _ _ _ _ HV "s.I2" eq_refl). qsimp. unfold Rdiv. ring.
  Qed.

  (* pressure polynomial p(s) = AM[0] + AM[1] s = -p2 r^2 (1 - s) *)
  Theorem C15_pressure : forall i (s : R),
    VV "am_0" i + VV "am_1" i * s = - S "s.p2" i * VV "r" i * VV "r" i * (1 - s).
  Proof.
    intros i s.
    unfold_fixes O to_vmec_scalars (st_fix _ _ _ _ HV) ("am_0" :: "am_1" :: "temp" :: nil)%list.
    rewrite (st_agree _ _ _ _ HV "s.p2" eq_refl). ring.
  Qed.
End C15.
Print Assumptions C15_phiedge.
Print Assumptions C15_curtor.
Print Assumptions C15_pressure.
