(* Source pin: the hand-written model of qsc/r_singularity.py:calculate_r_singularity (jphi-loop) was written and validated (correspondence runs evaluated inside Coq, see DESIGN.md 1.1) against the
   source whose normalised syntax tree has this digest (tools/gen_pins.py).  If the function is edited this obligation fails and the check searches
   for a failing input; after re-validating the model against the new source, regenerate with `tools/gen_pins.py --write-props`. *)
From Coq Require Import String.
From QSCGen Require Import G_pins.
Open Scope string_scope.

Lemma pin_r_singularity_selection_current : pin_r_singularity_selection = "a7e765385bbf3dbb727c7690d1745503c6f4faa2f6b64fdb558e72840e52c2a8".
Proof. reflexivity. Qed.
