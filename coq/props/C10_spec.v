(* C10: statements about the grad grad B tensor.  S is the object state (attribute values).
   The tensor is the 27 attributes "s.grad_grad_B_a_b_c" written by calculate_grad_grad_B_tensor
   (Frenet frame, index values 0,1,2 = normal, binormal, tangent; a, b = the two derivative
   directions, c = component of B); the independent derivation is "s.grad_grad_B_alt_a_b_c".
   Continuum statements use d/dvarphi f = (o_D f) / d_varphi_d_phi exactly as the code applies it. *)
From Coq Require Import Reals String List.
From QSC Require Import Expr Shallow.
Open Scope R_scope.
Open Scope string_scope.

Definition dg (n : nat) : string := match n with 0%nat => "0" | 1%nat => "1" | _ => "2" end.

Section Spec.
  Context {I : Type} (O : ops I) (S : string -> I -> R).

  Definition G (a b c : nat) : I -> R := S ("s.grad_grad_B_" ++ dg a ++ "_" ++ dg b ++ "_" ++ dg c).
  Definition Galt (a b c : nat) : I -> R := S ("s.grad_grad_B_alt_" ++ dg a ++ "_" ++ dg b ++ "_" ++ dg c).

  (* d/dvarphi as the code applies it, and d/dl = (1/l') d/dvarphi with l' = d_l_d_varphi *)
  Definition Dv (f : I -> R) : I -> R := fun i => o_D O f i / S "s.d_varphi_d_phi" i.
  Definition ddl (f : I -> R) : I -> R := fun i => Dv f i / S "s.d_l_d_varphi" i.

  (* admissibility of the input, as the property states it (B0 > 0, sG, spsi = +-1, etabar <> 0,
     non-vanishing curvature, a regular grid map); l' = |G0|/B0 > 0 is the axis length / 2 pi *)
  Record admissible : Prop := {
    adm_sG : forall i, S "s.sG" i * S "s.sG" i = 1;
    adm_spsi : forall i, S "s.spsi" i * S "s.spsi" i = 1;
    adm_sG_const : is_const (S "s.sG");
    adm_spsi_const : is_const (S "s.spsi");
    adm_eta_const : is_const (S "s.etabar");
    adm_eta : forall i, S "s.etabar" i <> 0;
    adm_kappa : forall i, S "s.curvature" i <> 0;
    adm_B0 : forall i, 0 < S "s.B0" i;
    adm_lp : forall i, 0 < S "s.abs_G0_over_B0" i;
    adm_dvp : forall i, S "s.d_varphi_d_phi" i <> 0
  }.
  (* the remaining scalar inputs are constant profiles *)
  Record constants : Prop := {
    cst_B0 : is_const (S "s.B0");
    cst_lp : is_const (S "s.abs_G0_over_B0");
    cst_iotaN : is_const (S "s.iotaN");
    cst_iota : is_const (S "s.iota");
    cst_I2 : is_const (S "s.I2");
    cst_p2 : is_const (S "s.p2");
    cst_B2c : is_const (S "s.B2c");
    cst_B2s : is_const (S "s.B2s")
  }.

  (* (a) symmetry in the two derivative indices *)
  Definition sym12 : Prop :=
    forall i a b c, (a < 3)%nat -> (b < 3)%nat -> (c < 3)%nat -> G a b c i = G b a c i.
  (* (b) gradient of div B *)
  Definition divfree : Prop :=
    forall i a, (a < 3)%nat -> G a 0 0 i + G a 1 1 i + G a 2 2 i = 0.
  (* (c) vacuum: full symmetry and harmonicity *)
  Definition vacuum_hyp : Prop := (forall i, S "s.I2" i = 0) /\ (forall i, S "s.p2" i = 0).
  Definition sym23 : Prop :=
    forall i a b c, (a < 3)%nat -> (b < 3)%nat -> (c < 3)%nat -> G a b c i = G a c b i.
  Definition harmonic : Prop :=
    forall i c, (c < 3)%nat -> G 0 0 c i + G 1 1 c i + G 2 2 c i = 0.
  (* the sigma equation holds at the returned solution (oracle specification of the Newton solve):
     VR = model of _residual evaluated at xs = sigma, xi = iota; sigma[0] already equals sigma0 *)
  Definition sigma_solved (VR : string -> I -> R) : Prop :=
    VR "xs" = S "s.sigma" /\ VR "xi" = S "s.iota" /\ (forall i, VR "r" i = 0)
    /\ o_pin O (S "s.sigma") (S "s.sigma0") = S "s.sigma"
    /\ (forall i, S "s.iotaN" i = S "s.iota" i + S "s.helicity" i * S "s.nfp" i).
  (* (c), tangent slice (a = 2), for ANY current: the part of G 2 b c antisymmetric in (b,c) is the arclength derivative of
     the on-axis current density 2 sG spsi I2 t (dt/dl = kappa n); it vanishes when I2 = 0 *)
  Definition tangent_slice_curl : Prop := forall i,
      G 2 0 1 i = G 2 1 0 i /\ G 2 0 2 i = G 2 2 0 i
      /\ G 2 1 2 i - G 2 2 1 i = 2 * S "s.sG" i * S "s.spsi" i * S "s.I2" i * S "s.curvature" i.
  Definition vacuum_tangent_slice_symmetric : Prop :=
    (forall i, S "s.I2" i = 0) -> forall i b c, (b < 3)%nat -> (c < 3)%nat -> G 2 b c i = G 2 c b i.

  (* the dense O(r^2) solve returned a solution of the assembled system (oracle specification; props/C04.v shows that the two
     residuals are the two O(r^2) differential equations): V2 = model of calculate_r2 *)
  Definition r2_solved (V2 : string -> I -> R) : Prop :=
    (forall i, V2 "solve1_eq0" i = 0) /\ (forall i, V2 "solve1_eq1" i = 0).

  (* (d) the two derivations agree *)
  Definition two_ways : Prop :=
    forall i a b c, (a < 3)%nat -> (b < 3)%nat -> (c < 3)%nat -> G a b c i = Galt a b c i.

  (* (e) contraction with the tangent = arclength derivative of the grad B tensor.
     T a b: a = direction of the derivative, b = component of B, indices 0,1,2 = n,b,t, taken from the
     locals "tensor.xy" of calculate_grad_B_tensor (model VT); tt = bt = tb = 0 in the code.
     The frame rotates: de_c/dl = sum_a W c a e_a with (Frenet-Serret)
        dn/dl = -kappa t + tau b,  db/dl = -tau n,  dt/dl = kappa n.
     For T = sum_ab T_ab e_a (x) e_b:  (dT/dl)_ab = dT_ab/dl + sum_c (T_cb W_ca + T_ac W_cb). *)
  Definition T (VT : string -> I -> R) (a b : nat) : I -> R :=
    match a, b with
    | 0%nat, 0%nat => VT "tensor.nn" | 0%nat, 1%nat => VT "tensor.nb" | 0%nat, 2%nat => VT "tensor.nt"
    | 1%nat, 0%nat => VT "tensor.bn" | 1%nat, 1%nat => VT "tensor.bb"
    | 2%nat, 0%nat => VT "tensor.tn"
    | _, _ => fun _ => 0
    end.
  Definition W (c a : nat) (i : I) : R :=
    match c, a with
    | 0%nat, 1%nat => S "s.torsion" i | 0%nat, 2%nat => - S "s.curvature" i
    | 1%nat, 0%nat => - S "s.torsion" i
    | 2%nat, 0%nat => S "s.curvature" i
    | _, _ => 0
    end.
  Definition dTdl (VT : string -> I -> R) (a b : nat) (i : I) : R :=
    ddl (T VT a b) i
    + (T VT 0 b i * W 0 a i + T VT a 0 i * W 0 b i)
    + (T VT 1 b i * W 1 a i + T VT a 1 i * W 1 b i)
    + (T VT 2 b i * W 2 a i + T VT a 2 i * W 2 b i).
  Definition tangent_contraction (VT : string -> I -> R) : Prop :=
    forall i a b, (a < 3)%nat -> (b < 3)%nat -> G 2 a b i = dTdl VT a b i.

  (* (f) scale length *)
  Definition frob3 (i : I) : R :=
    G 0 0 0 i * G 0 0 0 i + G 0 0 1 i * G 0 0 1 i + G 0 0 2 i * G 0 0 2 i
    + G 0 1 0 i * G 0 1 0 i + G 0 1 1 i * G 0 1 1 i + G 0 1 2 i * G 0 1 2 i
    + G 0 2 0 i * G 0 2 0 i + G 0 2 1 i * G 0 2 1 i + G 0 2 2 i * G 0 2 2 i
    + G 1 0 0 i * G 1 0 0 i + G 1 0 1 i * G 1 0 1 i + G 1 0 2 i * G 1 0 2 i
    + G 1 1 0 i * G 1 1 0 i + G 1 1 1 i * G 1 1 1 i + G 1 1 2 i * G 1 1 2 i
    + G 1 2 0 i * G 1 2 0 i + G 1 2 1 i * G 1 2 1 i + G 1 2 2 i * G 1 2 2 i
    + G 2 0 0 i * G 2 0 0 i + G 2 0 1 i * G 2 0 1 i + G 2 0 2 i * G 2 0 2 i
    + G 2 1 0 i * G 2 1 0 i + G 2 1 1 i * G 2 1 1 i + G 2 1 2 i * G 2 1 2 i
    + G 2 2 0 i * G 2 2 0 i + G 2 2 1 i * G 2 2 1 i + G 2 2 2 i * G 2 2 2 i.
  Notation invL := (S "s.grad_grad_B_inverse_scale_length_vs_varphi").
  Definition scale_length : Prop :=
    forall i,
      (invL i <> 0 -> S "s.L_grad_grad_B" i * invL i = 1)
      /\ (0 < S "s.B0" i -> invL i * invL i * (4 * S "s.B0" i) = sqrt (frob3 i))
      /\ (0 < S "s.B0" i -> (invL i * invL i * (4 * S "s.B0" i)) * (invL i * invL i * (4 * S "s.B0" i)) = frob3 i)
      /\ S "s.grad_grad_B_inverse_scale_length" i = o_max O invL.

  (* (g) the API variants.  VY = model of grad_grad_B_tensor_cylindrical, VC = model of
     grad_grad_B_tensor_cartesian, whose inputs "ggBcyl_a_b_c" are the array returned by the former. *)
  Definition ret (V : string -> I -> R) (a b c : nat) : I -> R := V ("s.ret_" ++ dg a ++ "_" ++ dg b ++ "_" ++ dg c).
  Definition cyl_in (V : string -> I -> R) (a b c : nat) : I -> R := V ("ggBcyl_" ++ dg a ++ "_" ++ dg b ++ "_" ++ dg c).
  (* KNOWN DEFECT documented: the "cylindrical" variant is the Frenet-frame array, unrotated *)
  Definition cylindrical_is_frenet (VY : string -> I -> R) : Prop :=
    forall i a b c, (a < 3)%nat -> (b < 3)%nat -> (c < 3)%nat -> ret VY a b c i = G a b c i.
  Definition Qrot (a k : nat) (i : I) : R :=
    let c := cos (S "s.phi" i) in let s := sin (S "s.phi" i) in
    match a, k with
    | 0%nat, 0%nat => c | 0%nat, 1%nat => - s | 1%nat, 0%nat => s | 1%nat, 1%nat => c
    | 2%nat, 2%nat => 1 | _, _ => 0 end.
  Definition sum3 (f : nat -> R) : R := f 0%nat + f 1%nat + f 2%nat.
  Definition rotated3 (Tin : nat -> nat -> nat -> I -> R) (a b c : nat) (i : I) : R :=
    sum3 (fun p => sum3 (fun q => sum3 (fun r => Qrot a p i * Qrot b q i * Qrot c r i * Tin p q r i))).
  Definition cartesian_is_rotation_of_that (VC : string -> I -> R) : Prop :=
    forall i a b c, (a < 3)%nat -> (b < 3)%nat -> (c < 3)%nat -> ret VC a b c i = rotated3 (cyl_in VC) a b c i.
  Definition fed_by (VY VC : string -> I -> R) : Prop :=
    forall a b c, (a < 3)%nat -> (b < 3)%nat -> (c < 3)%nat -> cyl_in VC a b c = ret VY a b c.
End Spec.
