(* C15, boundary section of the VMEC file: the mode lines written by to_vmec (theories/VmecEmit.v), read back by a namelist reader
   and summed with VMEC's convention cos/sin(m theta - n nfp phi) (C14_fourier.inverse), reproduce the surface R_2D, Z_2D that was
   transformed, on its own grid, when the mode ranges are the default ones (mpol = ntheta/2, ntor = nphi/2). *)
From Coq Require Import Reals ZArith List Bool Arith Lra Lia.
From QSC Require Import TrigSum VmecEmit.
From QSCProps Require Import C14_fourier.
Open Scope R_scope.

Definition iszR (x : R) : bool := if Req_EM_T x 0 then true else false.

Lemma same_R x y : same 0 iszR x y -> y = x.
Proof.
  intros [E|[Hz Ey]]; [symmetry; exact E|]. unfold iszR in Hz. destruct (Req_EM_T x 0) as [E0|]; [|discriminate]. congruence.
Qed.

Lemma inverse_ext_range nfp mpol ntor C S C' S' t p :
  (forall i m, (m <= mpol)%nat -> (i < 2 * ntor + 1)%nat -> C (row_n ntor i) m = C' (row_n ntor i) m) ->
  (forall i m, (m <= mpol)%nat -> (i < 2 * ntor + 1)%nat -> S (row_n ntor i) m = S' (row_n ntor i) m) ->
  inverse nfp mpol ntor C S t p = inverse nfp mpol ntor C' S' t p.
Proof.
  intros HC HS. unfold inverse. apply rsum_ext. intros m Hm. apply rsum_ext. intros i Hi. cbv zeta.
  change (Z.of_nat i - Z.of_nat ntor)%Z with (row_n ntor i).
  rewrite (HC i m), (HS i m) by lia. reflexivity.
Qed.

Section File.
  Variables (ntheta nphi nfp : nat).
  Hypothesis Hnt : (1 <= ntheta)%nat.
  Hypothesis Hnp : (1 <= nphi)%nat.
  Hypothesis Hnfp : (1 <= nfp)%nat.
  Let mpol := (ntheta / 2)%nat.
  Let ntor := (nphi / 2)%nat.
  Variables (R2D Z2D : nat -> nat -> R).

  (* the arrays handed to the writer, and what a reader of the file obtains *)
  Let A_RBC l := RBC ntheta nphi nfp l R2D Z2D.
  Let A_RBS l := RBS ntheta nphi nfp l R2D Z2D.
  Let A_ZBC l := ZBC ntheta nphi nfp l R2D Z2D.
  Let A_ZBS l := ZBS ntheta nphi nfp l R2D Z2D.
  Definition file (l : bool) := emit iszR l (A_RBC l) (A_RBS l) (A_ZBC l) (A_ZBS l) mpol ntor.
  Definition from_file (l : bool) (f : field) : Z -> nat -> R := read 0 (file l) f.

  (* stellarator-symmetric export: only RBC / ZBS lines exist, and they reproduce a symmetric surface *)
  Theorem C15_file_surface_sym j k : even2 ntheta nphi R2D -> odd2 ntheta nphi Z2D -> (j < ntheta)%nat -> (k < nphi)%nat ->
    inverse nfp mpol ntor (from_file false F_RBC) (from_file false F_RBS) (theta ntheta j) (phi nphi nfp k) = R2D j k /\
    inverse nfp mpol ntor (from_file false F_ZBC) (from_file false F_ZBS) (theta ntheta j) (phi nphi nfp k) = Z2D j k.
  Proof.
    intros HR HZ Hj Hk. split.
    - rewrite <- (roundtrip_R_sym ntheta nphi nfp mpol ntor Hnt Hnp Hnfp eq_refl eq_refl R2D Z2D j k HR Hj Hk).
      apply inverse_ext_range; intros i m Hm Hi.
      + unfold from_file, file. apply same_R. apply read_RBC; assumption.
      + unfold from_file, file. rewrite (proj1 (read_sym_no_asym 0 iszR _ _ _ _ mpol ntor (row_n ntor i) m)). reflexivity.
    - rewrite <- (roundtrip_Z_sym ntheta nphi nfp mpol ntor Hnt Hnp Hnfp eq_refl eq_refl R2D Z2D j k HZ Hj Hk).
      apply inverse_ext_range; intros i m Hm Hi.
      + unfold from_file, file. rewrite (proj2 (read_sym_no_asym 0 iszR _ _ _ _ mpol ntor (row_n ntor i) m)). reflexivity.
      + unfold from_file, file. apply same_R. apply read_ZBS; assumption.
  Qed.

  (* non-symmetric export: any surface is reproduced PROVIDED no mode has RBC = ZBS = 0 but RBS or ZBC nonzero
     (such a mode would not be written: VmecEmit.unguarded_asym_entry_lost) *)
  Theorem C15_file_surface_asym j k : (j < ntheta)%nat -> (k < nphi)%nat ->
    guarded iszR (A_RBC true) (A_RBS true) (A_ZBC true) (A_ZBS true) mpol ntor ->
    inverse nfp mpol ntor (from_file true F_RBC) (from_file true F_RBS) (theta ntheta j) (phi nphi nfp k) = R2D j k /\
    inverse nfp mpol ntor (from_file true F_ZBC) (from_file true F_ZBS) (theta ntheta j) (phi nphi nfp k) = Z2D j k.
  Proof.
    intros Hj Hk G. split.
    - rewrite <- (roundtrip_R_lasym ntheta nphi nfp mpol ntor Hnt Hnp Hnfp eq_refl eq_refl R2D Z2D j k Hj Hk).
      apply inverse_ext_range; intros i m Hm Hi; unfold from_file, file; apply same_R.
      + apply read_RBC; assumption.
      + apply read_RBS; assumption.
    - rewrite <- (roundtrip_Z_lasym ntheta nphi nfp mpol ntor Hnt Hnp Hnfp eq_refl eq_refl R2D Z2D j k Hj Hk).
      apply inverse_ext_range; intros i m Hm Hi; unfold from_file, file; apply same_R.
      + apply read_ZBC; assumption.
      + apply read_ZBS; assumption.
  Qed.

  (* every written line lies in 0..mpol, -ntor..ntor *)
  Theorem C15_file_ranges l a : In a (file l) -> (a_m a <= mpol)%nat /\ (- Z.of_nat ntor <= a_n a <= Z.of_nat ntor)%Z.
  Proof. apply emit_in_range. Qed.
End File.

(* the default resolutions of to_vmec are the covering ones (up to the VMEC array limit 100) *)
Theorem C15_default_ranges ntheta nphi : (ntheta <= 201)%nat -> (nphi <= 201)%nat ->
  mpol_default ntheta = (ntheta / 2)%nat /\ ntor_default nphi = (nphi / 2)%nat.
Proof.
  intros H1 H2. unfold mpol_default, ntor_default. split; apply Nat.min_l.
  - apply Nat.lt_succ_r. apply Nat.div_lt_upper_bound; lia.
  - apply Nat.lt_succ_r. apply Nat.div_lt_upper_bound; lia.
Qed.
(* NTOR in the header is capped by ntorMax while the lines run to ntor *)
Theorem C15_ntor_header ntor ntorMax : (ntor <= ntorMax)%nat <-> ntor_written ntor ntorMax = ntor.
Proof. unfold ntor_written. split; intros H; lia. Qed.

Print Assumptions C15_file_surface_sym.
Print Assumptions C15_file_surface_asym.
Print Assumptions C15_file_ranges.
Print Assumptions C15_default_ranges.
Print Assumptions C15_ntor_header.
