(* Source pin: the hand-written model of qsc/fourier_interpolation.py:fourier_interpolation was written and validated (correspondence runs evaluated inside Coq, see DESIGN.md 1.1) against the
   source whose normalised syntax tree has this digest (tools/gen_pins.py).  If the function is edited this obligation fails and the check searches
   for a failing input; after re-validating the model against the new source, regenerate with `tools/gen_pins.py --write-props`. *)
From Coq Require Import String.
From QSCGen Require Import G_pins.
Open Scope string_scope.

Lemma pin_fourier_interpolation_current : pin_fourier_interpolation = "b4b85c9e5e27ff05909cab74d5b582479310708243fb01c9bdc751fa661fb98f".
Proof. reflexivity. Qed.
