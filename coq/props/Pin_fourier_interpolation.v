(* Source pin: the hand-written model of qsc/fourier_interpolation.py:fourier_interpolation was written and validated (correspondence runs evaluated inside Coq, see DESIGN.md 1.1) against the
   source whose normalised syntax tree has this digest (tools/gen_pins.py).  If the function is edited this obligation fails and the check searches
   for a failing input; after re-validating the model against the new source, regenerate with `tools/gen_pins.py --write-props`. *)
From Coq Require Import String.
From QSCGen Require Import G_pins.
Open Scope string_scope.

Lemma pin_fourier_interpolation_current : pin_fourier_interpolation = "d3685dd09167ab5c2b2f143669d587eba0ca069fefa7306d40ce9b075f93837b".
Proof. reflexivity. Qed.
