(* C12(iii): THE FIRST ZERO OF THE TRUNCATED JACOBIAN IS A DOUBLE ROOT.

   pyQSC's calculate_r_singularity reports, at each toroidal grid point, the smallest r > 0 at which

        J(r,theta) = g0 + r g1c cos(theta) + r^2 (g20 + g2s sin(2 theta) + g2c cos(2 theta))

   vanishes for some poloidal angle theta, and finds it by solving for DOUBLE roots in theta (J = 0 and
   dJ/dtheta = 0), which leads to the quartic of props/C12_quartic.v ("double root => quartic").  This file
   supplies the analytic bridge, as a self-contained theorem of real analysis (it imports only the Coq
   standard library and Coquelicot, nothing of the project):

     first_zero_exists_and_is_double :
        g0 <> 0 -> (exists r t, 0 < r /\ J r t = 0) ->
        exists rc tc, 0 < rc /\ J rc tc = 0 /\ dJ rc tc = 0 /\ (forall r t, 0 < r < rc -> J r t <> 0)

     first_zero_characterisation :
        g0 <> 0 -> forall rc, is_least zero_radius rc <-> is_least double_radius rc
        ("smallest positive zero radius" = "smallest positive double-root radius"; least elements are unique,
         [is_least_unique])

     first_zero_meets_quartic_hypotheses :
        the same (rc, tc), written in c = cos tc, s = sin tc, satisfy exactly the three polynomial
        hypotheses  c c + s s = 1,  ghat = 0,  dghat = 0  of C12_quartic.K_relation_pure / quartic_pure.

   NO hypothesis beyond g0 <> 0 and the existence of some zero with r > 0 is needed.  (g0 <> 0 is necessary
   for the statement to make sense: if g0 = 0 then J 0 t = 0 and zeros accumulate at r = 0, cf. [g0_zero].)

   Proof.  WLOG g0 > 0 (negate the five coefficients).  With A = |g1c|, B = |g20| + |g2s| + |g2c| one has the
   elementary Lipschitz bound  |J r' t - J r t| <= (r' - r) (A + (r + r') B)  for 0 <= r <= r', UNIFORMLY in t
   ([lip]).  Let rc be the infimum of E = { r >= 0 | exists t, J r t <= 0 }  (completeness of R).  Then
     - J > 0 for small r, so rc > 0                                              ([small_pos]);
     - J r t > 0 for all t and 0 <= r < rc, by definition of rc                  (no IVT needed);
     - J rc t >= 0 for all t, by the Lipschitz bound from below                   ([Step D]);
     - J rc tc <= 0 for some tc: otherwise theta -> J rc theta, which is 2 pi-periodic and continuous, has a
       positive minimum on [0, 2 pi] (stdlib continuity_ab_min), hence on R, and the Lipschitz bound from
       above keeps J positive on [rc, rc + delta], contradicting the infimum    ([Step E]).
   So tc is a global minimum of the differentiable function J rc, and its derivative vanishes there (stdlib
   deriv_minimum). *)
From Coq Require Import Reals Lra Lia ZArith.
From Coquelicot Require Import Coquelicot.
Open Scope R_scope.

(* ------------------------------------------------------------------------------------------------ *)
(* 0. Definitions                                                                                     *)
(* ------------------------------------------------------------------------------------------------ *)
Definition J (g0 g1c g20 g2s g2c r t : R) : R :=
  g0 + r*g1c*cos t + r*r*(g20 + g2s*sin (2*t) + g2c*cos (2*t)).

(* dJ/dtheta; g0 and g20 do not occur, the arguments are kept so that J and dJ have the same signature *)
Definition dJ (g0 g1c g20 g2s g2c r t : R) : R :=
  - r*g1c*sin t + r*r*(2*g2s*cos (2*t) - 2*g2c*sin (2*t)).

Definition is_least (P : R -> Prop) (a : R) : Prop := P a /\ forall r, P r -> a <= r.

Lemma is_least_unique : forall P a b, is_least P a -> is_least P b -> a = b.
Proof. intros P a b [Ha Ha'] [Hb Hb']. apply Rle_antisym; auto. Qed.

(* ------------------------------------------------------------------------------------------------ *)
(* 1. dJ is the theta-derivative of J                                                                 *)
(* ------------------------------------------------------------------------------------------------ *)
Lemma J_is_derive : forall g0 g1c g20 g2s g2c r t,
  is_derive (fun t => J g0 g1c g20 g2s g2c r t) t (dJ g0 g1c g20 g2s g2c r t).
Proof. intros. unfold J, dJ. auto_derive. auto. ring. Qed.

Lemma J_derivable_pt_lim : forall g0 g1c g20 g2s g2c r t,
  derivable_pt_lim (J g0 g1c g20 g2s g2c r) t (dJ g0 g1c g20 g2s g2c r t).
Proof. intros. apply is_derive_Reals. apply (J_is_derive g0 g1c g20 g2s g2c r t). Qed.

Definition J_derivable_pt g0 g1c g20 g2s g2c r t : derivable_pt (J g0 g1c g20 g2s g2c r) t :=
  exist _ (dJ g0 g1c g20 g2s g2c r t) (J_derivable_pt_lim g0 g1c g20 g2s g2c r t).

Lemma J_continuity_pt : forall g0 g1c g20 g2s g2c r t, continuity_pt (J g0 g1c g20 g2s g2c r) t.
Proof. intros. apply derivable_continuous_pt. apply J_derivable_pt. Qed.

Lemma J_neg : forall g0 g1c g20 g2s g2c r t, J (-g0) (-g1c) (-g20) (-g2s) (-g2c) r t = - J g0 g1c g20 g2s g2c r t.
Proof. intros. unfold J. ring. Qed.

Lemma dJ_neg : forall g0 g1c g20 g2s g2c r t, dJ (-g0) (-g1c) (-g20) (-g2s) (-g2c) r t = - dJ g0 g1c g20 g2s g2c r t.
Proof. intros. unfold dJ. ring. Qed.

(* ------------------------------------------------------------------------------------------------ *)
(* 2. Periodicity: every angle can be brought to [0, 2 pi]                                            *)
(* ------------------------------------------------------------------------------------------------ *)
Lemma Z_nat_cases : forall k : Z, exists n : nat, IZR k = INR n \/ IZR k = - INR n.
Proof.
  intros k. destruct (Z_le_gt_dec 0 k) as [H|H].
  - exists (Z.to_nat k). left. rewrite INR_IZR_INZ. rewrite Z2Nat.id; auto.
  - exists (Z.to_nat (-k)). right. rewrite INR_IZR_INZ. rewrite Z2Nat.id by lia. rewrite opp_IZR. ring.
Qed.

Lemma cos_period_Z : forall (k : Z) x, cos (x + 2 * IZR k * PI) = cos x.
Proof.
  intros k x. destruct (Z_nat_cases k) as [n [H|H]]; rewrite H.
  - apply cos_period.
  - rewrite <- (cos_period (x + 2 * - INR n * PI) n). f_equal. ring.
Qed.

Lemma sin_period_Z : forall (k : Z) x, sin (x + 2 * IZR k * PI) = sin x.
Proof.
  intros k x. destruct (Z_nat_cases k) as [n [H|H]]; rewrite H.
  - apply sin_period.
  - rewrite <- (sin_period (x + 2 * - INR n * PI) n). f_equal. ring.
Qed.

Lemma J_reduce : forall g0 g1c g20 g2s g2c t,
  exists t', 0 <= t' <= 2*PI /\ forall r, J g0 g1c g20 g2s g2c r t = J g0 g1c g20 g2s g2c r t'.
Proof.
  intros g0 g1c g20 g2s g2c t.
  assert (Hpi := PI_RGT_0).
  destruct (euclidian_division t (2*PI)) as [k [t' [Ht [H0 H1]]]]; [lra|].
  rewrite Rabs_pos_eq in H1 by lra.
  exists t'. split; [lra|]. intros r. unfold J.
  replace t with (t' + 2 * IZR k * PI) by (rewrite Ht; ring).
  rewrite cos_period_Z.
  replace (2 * (t' + 2 * IZR k * PI)) with (2*t' + 2 * IZR (2*k) * PI) by (rewrite mult_IZR; ring).
  rewrite cos_period_Z, sin_period_Z. reflexivity.
Qed.

(* ------------------------------------------------------------------------------------------------ *)
(* 3. Small generic lemmas                                                                            *)
(* ------------------------------------------------------------------------------------------------ *)
Lemma glb_ex : forall E : R -> Prop,
  (exists x, E x) -> (exists b, forall x, E x -> b <= x) ->
  exists m, (forall x, E x -> m <= x) /\ (forall b, (forall x, E x -> b <= x) -> b <= m).
Proof.
  intros E [x0 Hx0] [b0 Hb0].
  destruct (completeness (fun y => E (-y))) as [m [Hub Hl]].
  - exists (-b0). intros y Hy. apply Hb0 in Hy. lra.
  - exists (-x0). rewrite Ropp_involutive. exact Hx0.
  - exists (-m). split.
    + intros x Hx. assert (- x <= m); [|lra]. apply Hub. rewrite Ropp_involutive. exact Hx.
    + intros b Hb. assert (m <= -b); [|lra]. apply Hl. intros y Hy. apply Hb in Hy. lra.
Qed.

Lemma abs_mul_bound : forall a x, -1 <= x <= 1 -> - Rabs a <= a * x <= Rabs a.
Proof. intros a x Hx. unfold Rabs. destruct (Rcase_abs a); nra. Qed.

(* a delta in (0,1] with delta * K < eps *)
Lemma small_delta : forall eps K, 0 < eps -> 0 <= K -> exists d, 0 < d <= 1 /\ d * K < eps.
Proof.
  intros eps K He HK.
  assert (HK1 : 0 < K + 1) by lra.
  assert (Hq : 0 < eps / (K + 1)) by (apply Rdiv_lt_0_compat; lra).
  exists (Rmin 1 (eps / (K + 1))). split.
  - split; [apply Rmin_glb_lt; lra | apply Rmin_l].
  - assert (H2 : Rmin 1 (eps / (K + 1)) <= eps / (K + 1)) by apply Rmin_r.
    assert (H3 : 0 < Rmin 1 (eps / (K + 1))) by (apply Rmin_glb_lt; lra).
    assert (H4 : eps / (K + 1) * (K + 1) = eps) by (field; lra).
    nra.
Qed.

(* ------------------------------------------------------------------------------------------------ *)
(* 4. The case g0 > 0                                                                                 *)
(* ------------------------------------------------------------------------------------------------ *)
Section Pos.
  Variables g0 g1c g20 g2s g2c : R.
  Hypothesis g0pos : 0 < g0.

  Local Notation JJ := (J g0 g1c g20 g2s g2c).
  Local Notation dJJ := (dJ g0 g1c g20 g2s g2c).
  Local Notation A := (Rabs g1c).
  Local Notation B := (Rabs g20 + Rabs g2s + Rabs g2c).

  Lemma A_nonneg : 0 <= A. Proof. apply Rabs_pos. Qed.
  Lemma B_nonneg : 0 <= B.
  Proof. assert (H1 := Rabs_pos g20). assert (H2 := Rabs_pos g2s). assert (H3 := Rabs_pos g2c). lra. Qed.

  (* the uniform-in-t Lipschitz bound in r *)
  Lemma lip : forall r r' t, 0 <= r <= r' ->
    - ((r' - r) * (A + (r + r') * B)) <= JJ r' t - JJ r t <= (r' - r) * (A + (r + r') * B).
  Proof.
    intros r r' t Hr.
    assert (Hc := abs_mul_bound g1c (cos t) (COS_bound t)).
    assert (Hs2 := abs_mul_bound g2s (sin (2*t)) (SIN_bound (2*t))).
    assert (Hc2 := abs_mul_bound g2c (cos (2*t)) (COS_bound (2*t))).
    assert (H20 := abs_mul_bound g20 1 ltac:(lra)).
    set (q := g20 + g2s*sin (2*t) + g2c*cos (2*t)).
    assert (Hq : - B <= q <= B) by (unfold q; lra).
    set (p := g1c * cos t) in *.
    replace (JJ r' t - JJ r t) with ((r' - r) * (p + (r + r') * q)) by (unfold J, p, q; ring).
    assert (HB := B_nonneg). assert (HA := A_nonneg).
    assert (Hu : - (A + (r + r') * B) <= p + (r + r') * q <= A + (r + r') * B).
    { assert (0 <= r + r') by lra.
      assert (- ((r + r') * B) <= (r + r') * q <= (r + r') * B) by nra. lra. }
    assert (0 <= r' - r) by lra.
    nra.
  Qed.

  (* the same with a constant: K R = A + 2 R B works on [0, R] *)
  Lemma lipK : forall Rr r r' t, 0 <= r <= r' -> r' <= Rr ->
    - ((r' - r) * (A + 2 * Rr * B)) <= JJ r' t - JJ r t <= (r' - r) * (A + 2 * Rr * B).
  Proof.
    intros Rr r r' t Hr HR.
    assert (H := lip r r' t Hr). assert (HB := B_nonneg).
    assert ((r' - r) * (A + (r + r') * B) <= (r' - r) * (A + 2 * Rr * B)).
    { apply Rmult_le_compat_l; [lra|]. apply Rplus_le_compat_l. apply Rmult_le_compat_r; lra. }
    lra.
  Qed.

  Lemma J_at_0 : forall t, JJ 0 t = g0.
  Proof. intros. unfold J. ring. Qed.

  (* zeros are bounded away from r = 0 *)
  Lemma small_pos : exists d, 0 < d /\ forall r t, 0 <= r < d -> 0 < JJ r t.
  Proof.
    assert (HB := B_nonneg). assert (HA := A_nonneg).
    destruct (small_delta g0 (A + 2 * 1 * B)) as [d [[Hd0 Hd1] Hd]]; [lra|lra|].
    exists d. split; [lra|]. intros r t Hr.
    assert (H := lipK 1 0 r t ltac:(lra) ltac:(lra)). rewrite J_at_0 in H.
    assert ((r - 0) * (A + 2 * 1 * B) <= d * (A + 2 * 1 * B)) by (apply Rmult_le_compat_r; lra).
    lra.
  Qed.

  Definition Eset (r : R) : Prop := 0 <= r /\ exists t, JJ r t <= 0.

  Lemma first_zero_pos :
    (exists r t, 0 < r /\ JJ r t = 0) ->
    exists rc tc, 0 < rc /\ JJ rc tc = 0 /\ (forall t, 0 <= JJ rc t) /\ (forall r t, 0 <= r < rc -> 0 < JJ r t).
  Proof.
    intros [r1 [t1 [Hr1 Hz1]]].
    assert (HB := B_nonneg). assert (HA := A_nonneg).
    destruct (glb_ex Eset) as [rc [Hlb Hglb]].
    { exists r1. split; [lra|]. exists t1. lra. }
    { exists 0. intros x [Hx _]. exact Hx. }
    (* rc > 0 *)
    destruct small_pos as [d0 [Hd0 Hsmall]].
    assert (Hrc : 0 < rc).
    { apply Rlt_le_trans with d0; [exact Hd0|]. apply Hglb. intros x [Hx0 [t Hxt]].
      destruct (Rle_lt_dec d0 x) as [H|H]; [exact H|].
      assert (H' := Hsmall x t (conj Hx0 H)). lra. }
    (* positivity below rc *)
    assert (Hbelow : forall r t, 0 <= r < rc -> 0 < JJ r t).
    { intros r t [Hr0 Hr]. destruct (Rlt_le_dec 0 (JJ r t)) as [H|H]; [exact H|].
      assert (rc <= r); [|lra]. apply Hlb. split; [exact Hr0|]. exists t. exact H. }
    (* Step D: J rc >= 0 *)
    assert (HD : forall t, 0 <= JJ rc t).
    { intros t. destruct (Rle_lt_dec 0 (JJ rc t)) as [H|H]; [exact H|].
      assert (HK : 0 <= A + 2 * rc * B) by nra.
      destruct (small_delta (- JJ rc t) (A + 2 * rc * B)) as [d [[Hd Hd1] HdK]]; [lra|exact HK|].
      set (dd := Rmin d rc).
      assert (Hdd0 : 0 < dd) by (apply Rmin_glb_lt; lra).
      assert (Hdd1 : dd <= d) by apply Rmin_l.
      assert (Hdd2 : dd <= rc) by apply Rmin_r.
      assert (HL := lipK rc (rc - dd) rc t ltac:(lra) ltac:(lra)).
      replace (rc - (rc - dd)) with dd in HL by ring.
      assert (dd * (A + 2 * rc * B) <= d * (A + 2 * rc * B)) by (apply Rmult_le_compat_r; lra).
      assert (rc <= rc - dd); [|lra]. apply Hlb. split; [lra|]. exists t. lra. }
    (* Step E: J rc tc <= 0 for some tc *)
    assert (HE : exists tc, JJ rc tc <= 0).
    { destruct (continuity_ab_min (JJ rc) 0 (2*PI)) as [tm [Hmin _]].
      { assert (H := PI_RGT_0). lra. }
      { intros c _. apply J_continuity_pt. }
      destruct (Rle_lt_dec (JJ rc tm) 0) as [H|Hmu]; [exists tm; exact H|].
      exfalso.
      assert (Hall : forall t, JJ rc tm <= JJ rc t).
      { intros t. destruct (J_reduce g0 g1c g20 g2s g2c t) as [t' [Ht' Heq]]. rewrite Heq. apply Hmin. exact Ht'. }
      assert (HK : 0 <= A + 2 * (rc + 1) * B) by nra.
      destruct (small_delta (JJ rc tm) (A + 2 * (rc + 1) * B)) as [d [[Hd Hd1] HdK]]; [lra|exact HK|].
      assert (rc + d <= rc); [|lra]. apply Hglb. intros x [Hx0 [t Hxt]].
      destruct (Rle_lt_dec (rc + d) x) as [Hx|Hx]; [exact Hx|].
      assert (Hx1 : rc <= x). { apply Hlb. split; [exact Hx0|]. exists t. exact Hxt. }
      assert (HL := lipK (rc + 1) rc x t ltac:(lra) ltac:(lra)).
      assert ((x - rc) * (A + 2 * (rc + 1) * B) <= d * (A + 2 * (rc + 1) * B)) by (apply Rmult_le_compat_r; lra).
      assert (Hm := Hall t). lra. }
    destruct HE as [tc Htc].
    exists rc, tc. split; [exact Hrc|]. split; [assert (H := HD tc); lra|]. split; [exact HD|exact Hbelow].
  Qed.

  Lemma first_zero_double_pos :
    (exists r t, 0 < r /\ JJ r t = 0) ->
    exists rc tc, 0 < rc /\ JJ rc tc = 0 /\ dJJ rc tc = 0 /\ (forall r t, 0 < r < rc -> JJ r t <> 0).
  Proof.
    intros H. destruct (first_zero_pos H) as [rc [tc [Hrc [Hz [Hnn Hbelow]]]]].
    exists rc, tc. split; [exact Hrc|]. split; [exact Hz|]. split.
    - assert (Hd := deriv_minimum (JJ rc) (tc - 1) (tc + 1) tc (J_derivable_pt g0 g1c g20 g2s g2c rc tc)
                      ltac:(lra) ltac:(lra)).
      simpl in Hd. apply Hd. intros x _ _. rewrite Hz. apply Hnn.
    - intros r t Hr. assert (H' := Hbelow r t ltac:(lra)). lra.
  Qed.
End Pos.

(* ------------------------------------------------------------------------------------------------ *)
(* 5. Main theorems                                                                                   *)
(* ------------------------------------------------------------------------------------------------ *)
Section Main.
  Variables g0 g1c g20 g2s g2c : R.

  Local Notation J := (J g0 g1c g20 g2s g2c).
  Local Notation dJ := (dJ g0 g1c g20 g2s g2c).

  (* dJ is the theta-derivative of J (Coquelicot and stdlib forms) *)
  Theorem dJ_is_derivative : forall r t, is_derive (fun t => J r t) t (dJ r t).
  Proof. intros. apply J_is_derive. Qed.

  Theorem dJ_is_derivative_stdlib : forall r t, derivable_pt_lim (J r) t (dJ r t).
  Proof. intros. apply J_derivable_pt_lim. Qed.

  (* (1) *)
  Theorem first_zero_exists_and_is_double :
    g0 <> 0 -> (exists r t, 0 < r /\ J r t = 0) ->
    exists rc tc, 0 < rc /\ J rc tc = 0 /\ dJ rc tc = 0 /\ (forall r t, 0 < r < rc -> J r t <> 0).
  Proof.
    intros Hg0 Hex. destruct (Rdichotomy _ _ Hg0) as [Hneg|Hpos].
    - destruct (first_zero_double_pos (-g0) (-g1c) (-g20) (-g2s) (-g2c) ltac:(lra)) as [rc [tc [Hrc [Hz [Hd Hb]]]]].
      { destruct Hex as [r [t [Hr Hz]]]. exists r, t. split; [exact Hr|]. rewrite J_neg, Hz. ring. }
      exists rc, tc. rewrite J_neg in Hz. rewrite dJ_neg in Hd.
      split; [exact Hrc|]. split; [lra|]. split; [lra|].
      intros r t Hr Hc. apply (Hb r t Hr). rewrite J_neg, Hc. ring.
    - apply first_zero_double_pos; assumption.
  Qed.

  (* (2) *)
  Definition zero_radius (r : R) : Prop := 0 < r /\ exists t, J r t = 0.
  Definition double_radius (r : R) : Prop := 0 < r /\ exists t, J r t = 0 /\ dJ r t = 0.

  Lemma double_radius_zero_radius : forall r, double_radius r -> zero_radius r.
  Proof. intros r [Hr [t [Hz _]]]. split; [exact Hr|]. exists t. exact Hz. Qed.

  (* the rc of (1) is the least zero radius and the least double-root radius *)
  Lemma first_zero_least_both :
    g0 <> 0 -> (exists r, zero_radius r) -> exists rc, is_least zero_radius rc /\ is_least double_radius rc.
  Proof.
    intros Hg0 [r0 [Hr0 [t0 Ht0]]].
    destruct (first_zero_exists_and_is_double Hg0) as [rc [tc [Hrc [Hz [Hd Hb]]]]].
    { exists r0, t0. split; assumption. }
    assert (Hleast : forall r, zero_radius r -> rc <= r).
    { intros r [Hr [t Ht]]. destruct (Rle_lt_dec rc r) as [H|H]; [exact H|].
      exfalso. apply (Hb r t); [lra|exact Ht]. }
    exists rc. split; split.
    - split; [exact Hrc|]. exists tc. exact Hz.
    - exact Hleast.
    - split; [exact Hrc|]. exists tc. split; assumption.
    - intros r Hr. apply Hleast. apply double_radius_zero_radius. exact Hr.
  Qed.

  Theorem first_zero_characterisation :
    g0 <> 0 -> forall rc, is_least zero_radius rc <-> is_least double_radius rc.
  Proof.
    intros Hg0 rc. split; intros H.
    - destruct (first_zero_least_both Hg0) as [rc' [Hz' Hd']].
      { exists rc. apply H. }
      rewrite (is_least_unique _ _ _ H Hz'). exact Hd'.
    - destruct (first_zero_least_both Hg0) as [rc' [Hz' Hd']].
      { exists rc. apply double_radius_zero_radius. apply H. }
      rewrite (is_least_unique _ _ _ H Hd'). exact Hz'.
  Qed.

  (* the "first zero" of (1), as a predicate, is the same thing as the least zero radius; hence unique *)
  Definition is_first_zero (rc : R) : Prop :=
    0 < rc /\ (exists t, J rc t = 0) /\ (forall r t, 0 < r < rc -> J r t <> 0).
  Definition is_least_double (rc : R) : Prop :=
    0 < rc /\ (exists t, J rc t = 0 /\ dJ rc t = 0) /\ (forall r t, 0 < r < rc -> ~ (J r t = 0 /\ dJ r t = 0)).

  Lemma is_first_zero_least : forall rc, is_first_zero rc <-> is_least zero_radius rc.
  Proof.
    intros rc. split.
    - intros [Hrc [Hex Hb]]. split; [split; assumption|].
      intros r [Hr [t Ht]]. destruct (Rle_lt_dec rc r) as [H|H]; [exact H|].
      exfalso. apply (Hb r t); [lra|exact Ht].
    - intros [[Hrc Hex] Hl]. split; [exact Hrc|]. split; [exact Hex|].
      intros r t Hr Hz. assert (rc <= r); [|lra]. apply Hl. split; [lra|]. exists t. exact Hz.
  Qed.

  Lemma is_least_double_least : forall rc, is_least_double rc <-> is_least double_radius rc.
  Proof.
    intros rc. split.
    - intros [Hrc [Hex Hb]]. split; [split; assumption|].
      intros r [Hr [t Ht]]. destruct (Rle_lt_dec rc r) as [H|H]; [exact H|].
      exfalso. apply (Hb r t); [lra|exact Ht].
    - intros [[Hrc Hex] Hl]. split; [exact Hrc|]. split; [exact Hex|].
      intros r t Hr Hz. assert (rc <= r); [|lra]. apply Hl. split; [lra|]. exists t. exact Hz.
  Qed.

  Theorem first_zero_iff_least_double : g0 <> 0 -> forall rc, is_first_zero rc <-> is_least_double rc.
  Proof.
    intros Hg0 rc. rewrite is_first_zero_least, is_least_double_least. apply first_zero_characterisation. exact Hg0.
  Qed.

  Theorem first_zero_unique : forall rc rc', is_first_zero rc -> is_first_zero rc' -> rc = rc'.
  Proof. intros rc rc' H H'. apply is_first_zero_least in H, H'. exact (is_least_unique _ _ _ H H'). Qed.

  Theorem least_double_unique : forall rc rc', is_least_double rc -> is_least_double rc' -> rc = rc'.
  Proof. intros rc rc' H H'. apply is_least_double_least in H, H'. exact (is_least_unique _ _ _ H H'). Qed.

  (* (3) *)
  Theorem no_zero_means_no_double :
    g0 <> 0 -> (forall r t, 0 < r -> J r t <> 0) -> (forall r t, 0 < r -> ~ (J r t = 0 /\ dJ r t = 0)).
  Proof. intros _ H r t Hr [Hz _]. exact (H r t Hr Hz). Qed.

  (* (4) the degenerate case: without g0 <> 0 there is no first zero, r = 0 itself is one *)
  Lemma g0_zero : g0 = 0 -> forall t, J 0 t = 0.
  Proof. intros H t. unfold C12_firstzero.J. rewrite H. ring. Qed.

  (* Corollary of (1) in the convention of props/C12_quartic.v: with c = cos tc, s = sin tc and r = rc the three
     polynomial hypotheses  c c + s s = 1,  ghat = 0,  dghat = 0  of K_relation_pure hold
     (sin2t = 2 s c, cos2t = c c - s s, ghat = g0 + r g1c c + r r (g20 + g2s sin2t + g2c cos2t),
      dghat = - g1c s + 2 r (g2s cos2t - g2c sin2t), all written out). *)
  Theorem first_zero_meets_quartic_hypotheses :
    g0 <> 0 -> (exists r t, 0 < r /\ J r t = 0) ->
    exists rc c s,
      0 < rc /\
      c*c + s*s = 1 /\
      g0 + rc*g1c*c + rc*rc*(g20 + g2s*(2*s*c) + g2c*(c*c - s*s)) = 0 /\
      - g1c*s + 2*rc*(g2s*(c*c - s*s) - g2c*(2*s*c)) = 0 /\
      (forall r t, 0 < r < rc -> J r t <> 0).
  Proof.
    intros Hg0 Hex.
    destruct (first_zero_exists_and_is_double Hg0 Hex) as [rc [tc [Hrc [Hz [Hd Hb]]]]].
    exists rc, (cos tc), (sin tc).
    assert (H1 : cos tc * cos tc + sin tc * sin tc = 1).
    { assert (H := sin2_cos2 tc). unfold Rsqr in H. lra. }
    split; [exact Hrc|]. split; [exact H1|].
    unfold C12_firstzero.J in Hz. unfold C12_firstzero.dJ in Hd.
    rewrite sin_2a, cos_2a in Hz, Hd.
    split; [|split; [|exact Hb]].
    - rewrite <- Hz. ring.
    - apply Rmult_eq_reg_l with rc; [|lra]. rewrite Rmult_0_r, <- Hd. ring.
  Qed.
End Main.

Print Assumptions dJ_is_derivative.
Print Assumptions first_zero_exists_and_is_double.
Print Assumptions first_zero_characterisation.
Print Assumptions first_zero_iff_least_double.
Print Assumptions first_zero_unique.
Print Assumptions no_zero_means_no_double.
Print Assumptions first_zero_meets_quartic_hypotheses.
