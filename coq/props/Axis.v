(* Axis.v: facts about ONE harmonic of the axis Fourier sums, proved on the regenerated term
   program [init_axis_term] (gen/G_init_axis.v), i.e. on what the loop body of
   qsc/init_axis.py adds to R0, Z0, R0p, ... for the harmonic jn (n = jn*nfp).

   All statements are about an arbitrary model V of the program ([Shallow.is_fix]); no operator
   of the structure O occurs in the program, so O is arbitrary.  Only Coq's standard Reals
   library is used (derivatives are [Ranalysis1.derivable_pt_lim]; Coquelicot is NOT used).

     A1 term_zero_coeffs        zero amplitudes  => all ten terms vanish
     A2 spline_terms_agree      s.nfp = nfp, s.phi = phi => R0_func_term = R0_term, Z0_func_term = Z0_term
     A3 terms_are_derivatives   with I = R, phi = id, constant jn, nfp, coefficients:
                                R0_term' = R0p_term, R0p_term' = R0pp_term, R0pp_term' = R0ppp_term (same for Z)
     A4 term_shift              origin shift by phik = rotation of (rc,rs), (zc,zs) by the angle n*phik
     A5 term_reverse            toroidal reversal phi -> 2 pi/nfp - phi, rs -> -rs, zs -> -zs:
                                even-order terms keep their sign, odd-order terms flip
   plus the liftings of A1 and A3 to finite sums over harmonics ([hsum]). *)
From Coq Require Import Reals String List Lra QArith Qreals FunctionalExtensionality.
From QSC Require Import Expr Shallow.
From QSCGen Require Import G_init_axis.
Open Scope R_scope.
Open Scope string_scope.

Lemma ssa_init_axis_term : ssa init_axis_term = true.
Proof. vm_compute. reflexivity. Qed.

(* one harmonic with amplitudes a (cosine), b (sine), mode number n, at the angle x *)
Definition harm (a b n x : R) : R := a * cos (n * x) + b * sin (n * x).

(* ------------------------------------------------------------------------------------------ *)
(* Closed forms of the bound names                                                              *)
(* ------------------------------------------------------------------------------------------ *)
Section Closed.
  Context {I : Type} (O : ops I) (V : string -> I -> R).
  Hypothesis HV : is_fix O init_axis_term V.

  Local Ltac ut :=
    unfold_fixes O init_axis_term HV
      ("R0_term" :: "Z0_term" :: "R0p_term" :: "Z0p_term" :: "R0pp_term" :: "Z0pp_term"
       :: "R0ppp_term" :: "Z0ppp_term" :: "R0_func_term" :: "Z0_func_term"
       :: "sinangle" :: "cosangle" :: nil)%list.

  Lemma n_def i : V "n" i = V "jn" i * V "nfp" i.
  Proof. unfold_fix O init_axis_term HV "n". reflexivity. Qed.

  Lemma R0_closed i : V "R0_term" i = harm (V "rc_jn" i) (V "rs_jn" i) (V "n" i) (V "phi" i).
  Proof. unfold harm. ut. ring. Qed.
  Lemma Z0_closed i : V "Z0_term" i = harm (V "zc_jn" i) (V "zs_jn" i) (V "n" i) (V "phi" i).
  Proof. unfold harm. ut. ring. Qed.
  Lemma R0p_closed i :
    V "R0p_term" i = harm (V "n" i * V "rs_jn" i) (- (V "n" i * V "rc_jn" i)) (V "n" i) (V "phi" i).
  Proof. unfold harm. ut. ring. Qed.
  Lemma Z0p_closed i :
    V "Z0p_term" i = harm (V "n" i * V "zs_jn" i) (- (V "n" i * V "zc_jn" i)) (V "n" i) (V "phi" i).
  Proof. unfold harm. ut. ring. Qed.
  Lemma R0pp_closed i :
    V "R0pp_term" i = harm (- (V "n" i * (V "n" i * V "rc_jn" i))) (- (V "n" i * (V "n" i * V "rs_jn" i)))
                           (V "n" i) (V "phi" i).
  Proof. unfold harm. ut. ring. Qed.
  Lemma Z0pp_closed i :
    V "Z0pp_term" i = harm (- (V "n" i * (V "n" i * V "zc_jn" i))) (- (V "n" i * (V "n" i * V "zs_jn" i)))
                           (V "n" i) (V "phi" i).
  Proof. unfold harm. ut. ring. Qed.
  Lemma R0ppp_closed i :
    V "R0ppp_term" i = harm (- (V "n" i * (V "n" i * (V "n" i * V "rs_jn" i))))
                            (V "n" i * (V "n" i * (V "n" i * V "rc_jn" i))) (V "n" i) (V "phi" i).
  Proof. unfold harm. ut. ring. Qed.
  Lemma Z0ppp_closed i :
    V "Z0ppp_term" i = harm (- (V "n" i * (V "n" i * (V "n" i * V "zs_jn" i))))
                            (V "n" i * (V "n" i * (V "n" i * V "zc_jn" i))) (V "n" i) (V "phi" i).
  Proof. unfold harm. ut. ring. Qed.
  Lemma R0_func_closed i :
    V "R0_func_term" i = harm (V "rc_jn" i) (V "rs_jn" i) (V "jn" i * V "s.nfp" i) (V "s.phi" i).
  Proof. unfold harm. ut. ring. Qed.
  Lemma Z0_func_closed i :
    V "Z0_func_term" i = harm (V "zc_jn" i) (V "zs_jn" i) (V "jn" i * V "s.nfp" i) (V "s.phi" i).
  Proof. unfold harm. ut. ring. Qed.

  (* ---------------------------------------------------------------------------------------- *)
  (* A1: a harmonic with zero amplitudes contributes nothing to any axis array                  *)
  (* ---------------------------------------------------------------------------------------- *)
  Theorem term_zero_coeffs i :
    V "rc_jn" i = 0 -> V "rs_jn" i = 0 -> V "zc_jn" i = 0 -> V "zs_jn" i = 0 ->
    V "R0_term" i = 0 /\ V "Z0_term" i = 0 /\ V "R0p_term" i = 0 /\ V "Z0p_term" i = 0 /\
    V "R0pp_term" i = 0 /\ V "Z0pp_term" i = 0 /\ V "R0ppp_term" i = 0 /\ V "Z0ppp_term" i = 0 /\
    V "R0_func_term" i = 0 /\ V "Z0_func_term" i = 0.
  Proof.
    intros Hrc Hrs Hzc Hzs.
    rewrite R0_closed, Z0_closed, R0p_closed, Z0p_closed, R0pp_closed, Z0pp_closed,
      R0ppp_closed, Z0ppp_closed, R0_func_closed, Z0_func_closed.
    unfold harm. rewrite Hrc, Hrs, Hzc, Hzs. repeat split; ring.
  Qed.

  (* ---------------------------------------------------------------------------------------- *)
  (* A2: the sums handed to the splines R0_func / Z0_func are the same curve                    *)
  (* ---------------------------------------------------------------------------------------- *)
  Theorem spline_terms_agree_pt i :
    V "s.nfp" i = V "nfp" i -> V "s.phi" i = V "phi" i ->
    V "R0_func_term" i = V "R0_term" i /\ V "Z0_func_term" i = V "Z0_term" i.
  Proof.
    intros Hn Hp. rewrite R0_func_closed, Z0_func_closed, R0_closed, Z0_closed, n_def, Hn, Hp.
    split; reflexivity.
  Qed.

  Theorem spline_terms_agree :
    V "s.nfp" = V "nfp" -> V "s.phi" = V "phi" ->
    V "R0_func_term" = V "R0_term" /\ V "Z0_func_term" = V "Z0_term".
  Proof.
    intros Hn Hp. split; apply functional_extensionality; intro i;
      apply spline_terms_agree_pt; [rewrite Hn|rewrite Hp|rewrite Hn|rewrite Hp]; reflexivity.
  Qed.
End Closed.

(* ------------------------------------------------------------------------------------------ *)
(* A3: the derivative terms are the derivatives (standard library [derivable_pt_lim])           *)
(* ------------------------------------------------------------------------------------------ *)
Lemma harm_deriv a b n x :
  derivable_pt_lim (harm a b n) x (harm (n * b) (- (n * a)) n x).
Proof.
  assert (Hlin : derivable_pt_lim (fun y => n * y) x n).
  { pose proof (derivable_pt_lim_scal id n x 1 (derivable_pt_lim_id x)) as H.
    rewrite Rmult_1_r in H. exact H. }
  assert (Hc : derivable_pt_lim (fun y => cos (n * y)) x (- sin (n * x) * n)).
  { exact (derivable_pt_lim_comp (fun y => n * y) cos x n (- sin (n * x)) Hlin (derivable_pt_lim_cos (n * x))). }
  assert (Hs : derivable_pt_lim (fun y => sin (n * y)) x (cos (n * x) * n)).
  { exact (derivable_pt_lim_comp (fun y => n * y) sin x n (cos (n * x)) Hlin (derivable_pt_lim_sin (n * x))). }
  pose proof (derivable_pt_lim_plus _ _ x _ _
                (derivable_pt_lim_scal _ a x _ Hc) (derivable_pt_lim_scal _ b x _ Hs)) as H.
  unfold harm.
  replace (n * b * cos (n * x) + - (n * a) * sin (n * x))
    with (a * (- sin (n * x) * n) + b * (cos (n * x) * n)) by ring.
  exact H.
Qed.

Section Deriv.
  Variable O : ops R.
  Variable V : string -> R -> R.
  Hypothesis HV : is_fix O init_axis_term V.
  (* the index IS the toroidal angle; jn, nfp and the four amplitudes do not depend on it *)
  Hypothesis Hphi : V "phi" = (fun x => x).
  Hypothesis Hjn : is_const (V "jn").
  Hypothesis Hnfp : is_const (V "nfp").
  Hypothesis Hrc : is_const (V "rc_jn").
  Hypothesis Hrs : is_const (V "rs_jn").
  Hypothesis Hzc : is_const (V "zc_jn").
  Hypothesis Hzs : is_const (V "zs_jn").

  Theorem terms_are_derivatives : forall x : R,
    derivable_pt_lim (V "R0_term") x (V "R0p_term" x) /\
    derivable_pt_lim (V "R0p_term") x (V "R0pp_term" x) /\
    derivable_pt_lim (V "R0pp_term") x (V "R0ppp_term" x) /\
    derivable_pt_lim (V "Z0_term") x (V "Z0p_term" x) /\
    derivable_pt_lim (V "Z0p_term") x (V "Z0pp_term" x) /\
    derivable_pt_lim (V "Z0pp_term") x (V "Z0ppp_term" x).
  Proof.
    destruct Hjn as [j Ej], Hnfp as [N EN], Hrc as [rc Erc], Hrs as [rs Ers], Hzc as [zc Ezc], Hzs as [zs Ezs].
    assert (En : forall y, V "n" y = j * N) by (intro y; rewrite (n_def O V HV), Ej, EN; reflexivity).
    assert (F : forall name a b, (forall y, V name y = harm a b (j * N) y) -> V name = harm a b (j * N)).
    { intros name a b H. apply functional_extensionality. exact H. }
    assert (E0 : V "R0_term" = harm rc rs (j * N)).
    { apply F; intro y. rewrite (R0_closed O V HV), En, Erc, Ers, Hphi. reflexivity. }
    assert (E1 : V "R0p_term" = harm (j * N * rs) (- (j * N * rc)) (j * N)).
    { apply F; intro y. rewrite (R0p_closed O V HV), En, Erc, Ers, Hphi. reflexivity. }
    assert (E2 : V "R0pp_term" = harm (- (j * N * (j * N * rc))) (- (j * N * (j * N * rs))) (j * N)).
    { apply F; intro y. rewrite (R0pp_closed O V HV), En, Erc, Ers, Hphi. reflexivity. }
    assert (E3 : V "R0ppp_term" = harm (- (j * N * (j * N * (j * N * rs)))) (j * N * (j * N * (j * N * rc))) (j * N)).
    { apply F; intro y. rewrite (R0ppp_closed O V HV), En, Erc, Ers, Hphi. reflexivity. }
    assert (G0 : V "Z0_term" = harm zc zs (j * N)).
    { apply F; intro y. rewrite (Z0_closed O V HV), En, Ezc, Ezs, Hphi. reflexivity. }
    assert (G1 : V "Z0p_term" = harm (j * N * zs) (- (j * N * zc)) (j * N)).
    { apply F; intro y. rewrite (Z0p_closed O V HV), En, Ezc, Ezs, Hphi. reflexivity. }
    assert (G2 : V "Z0pp_term" = harm (- (j * N * (j * N * zc))) (- (j * N * (j * N * zs))) (j * N)).
    { apply F; intro y. rewrite (Z0pp_closed O V HV), En, Ezc, Ezs, Hphi. reflexivity. }
    assert (G3 : V "Z0ppp_term" = harm (- (j * N * (j * N * (j * N * zs)))) (j * N * (j * N * (j * N * zc))) (j * N)).
    { apply F; intro y. rewrite (Z0ppp_closed O V HV), En, Ezc, Ezs, Hphi. reflexivity. }
    intro x. rewrite E0, E1, E2, E3, G0, G1, G2, G3.
    repeat split.
    - apply harm_deriv.
    - replace (harm (- (j * N * (j * N * rc))) (- (j * N * (j * N * rs))) (j * N) x)
        with (harm (j * N * - (j * N * rc)) (- (j * N * (j * N * rs))) (j * N) x) by (unfold harm; ring).
      apply harm_deriv.
    - replace (harm (- (j * N * (j * N * (j * N * rs)))) (j * N * (j * N * (j * N * rc))) (j * N) x)
        with (harm (j * N * - (j * N * (j * N * rs))) (- (j * N * - (j * N * (j * N * rc)))) (j * N) x)
        by (unfold harm; ring).
      apply harm_deriv.
    - apply harm_deriv.
    - replace (harm (- (j * N * (j * N * zc))) (- (j * N * (j * N * zs))) (j * N) x)
        with (harm (j * N * - (j * N * zc)) (- (j * N * (j * N * zs))) (j * N) x) by (unfold harm; ring).
      apply harm_deriv.
    - replace (harm (- (j * N * (j * N * (j * N * zs)))) (j * N * (j * N * (j * N * zc))) (j * N) x)
        with (harm (j * N * - (j * N * (j * N * zs))) (- (j * N * - (j * N * (j * N * zc)))) (j * N) x)
        by (unfold harm; ring).
      apply harm_deriv.
  Qed.

  (* the form in which props/C03.v consumes it ([jets_consistent]): for every operator structure
     whose o_D returns the derivative wherever it exists *)
  Definition D_is_derivative : Prop :=
    forall (f : R -> R) (x l : R), derivable_pt_lim f x l -> o_D O f x = l.

  Corollary terms_jets : D_is_derivative -> forall x : R,
    o_D O (V "R0_term") x = V "R0p_term" x /\ o_D O (V "R0p_term") x = V "R0pp_term" x /\
    o_D O (V "R0pp_term") x = V "R0ppp_term" x /\
    o_D O (V "Z0_term") x = V "Z0p_term" x /\ o_D O (V "Z0p_term") x = V "Z0pp_term" x /\
    o_D O (V "Z0pp_term") x = V "Z0ppp_term" x.
  Proof.
    intros HD x. destruct (terms_are_derivatives x) as (H1 & H2 & H3 & H4 & H5 & H6).
    repeat split; apply HD; assumption.
  Qed.
End Deriv.

(* ------------------------------------------------------------------------------------------ *)
(* Finite sums over harmonics: liftings of A1 (padding) and A3 (derivatives)                    *)
(* ------------------------------------------------------------------------------------------ *)
Fixpoint hsum {I : Type} (k : nat) (f : nat -> I -> R) (i : I) : R :=
  match k with
  | O => 0
  | S k' => hsum k' f i + f k' i
  end.

Definition axis_names : list string :=
  ("R0_term" :: "Z0_term" :: "R0p_term" :: "Z0p_term" :: "R0pp_term" :: "Z0pp_term"
   :: "R0ppp_term" :: "Z0ppp_term" :: "R0_func_term" :: "Z0_func_term" :: nil)%list.

(* Vs j is the model of the term program for the harmonic j.  Appending a harmonic with zero
   amplitudes changes none of the ten sums (the calc_pad hypothesis at the level of the axis). *)
Theorem axis_sum_pad {I : Type} (O : ops I) (Vs : nat -> string -> I -> R) (k : nat) (i : I) :
  is_fix O init_axis_term (Vs k) ->
  Vs k "rc_jn" i = 0 -> Vs k "rs_jn" i = 0 -> Vs k "zc_jn" i = 0 -> Vs k "zs_jn" i = 0 ->
  forall name, In name axis_names ->
    hsum (S k) (fun j => Vs j name) i = hsum k (fun j => Vs j name) i.
Proof.
  intros HV Hrc Hrs Hzc Hzs name Hin.
  destruct (term_zero_coeffs O (Vs k) HV i Hrc Hrs Hzc Hzs)
    as (H1 & H2 & H3 & H4 & H5 & H6 & H7 & H8 & H9 & H10).
  cbn [hsum]. unfold axis_names in Hin. cbn [In] in Hin.
  repeat (destruct Hin as [<- | Hin]; [ring [H1 H2 H3 H4 H5 H6 H7 H8 H9 H10] | ]). contradiction.
Qed.

Lemma hsum_deriv (k : nat) (f g : nat -> R -> R) (x : R) :
  (forall j, (j < k)%nat -> derivable_pt_lim (f j) x (g j x)) ->
  derivable_pt_lim (hsum k f) x (hsum k g x).
Proof.
  induction k as [|k IH]; intros H.
  - cbn [hsum]. apply (derivable_pt_lim_const 0).
  - cbn [hsum]. apply (derivable_pt_lim_plus (hsum k f) (f k)).
    + apply IH. intros j Hj. apply H. apply Nat.lt_lt_succ_r. exact Hj.
    + apply H. apply Nat.lt_succ_diag_r.
Qed.

Definition harmonic_inputs (V : string -> R -> R) : Prop :=
  V "phi" = (fun x => x) /\ is_const (V "jn") /\ is_const (V "nfp") /\
  is_const (V "rc_jn") /\ is_const (V "rs_jn") /\ is_const (V "zc_jn") /\ is_const (V "zs_jn").

Theorem axis_sums_are_derivatives (O : ops R) (Vs : nat -> string -> R -> R) (k : nat) :
  (forall j, (j < k)%nat -> is_fix O init_axis_term (Vs j) /\ harmonic_inputs (Vs j)) ->
  forall x : R,
    let S name := hsum k (fun j => Vs j name) in
    derivable_pt_lim (S "R0_term") x (S "R0p_term" x) /\
    derivable_pt_lim (S "R0p_term") x (S "R0pp_term" x) /\
    derivable_pt_lim (S "R0pp_term") x (S "R0ppp_term" x) /\
    derivable_pt_lim (S "Z0_term") x (S "Z0p_term" x) /\
    derivable_pt_lim (S "Z0p_term") x (S "Z0pp_term" x) /\
    derivable_pt_lim (S "Z0pp_term") x (S "Z0ppp_term" x).
Proof.
  intros H x S.
  assert (T : forall j, (j < k)%nat ->
    derivable_pt_lim (Vs j "R0_term") x (Vs j "R0p_term" x) /\
    derivable_pt_lim (Vs j "R0p_term") x (Vs j "R0pp_term" x) /\
    derivable_pt_lim (Vs j "R0pp_term") x (Vs j "R0ppp_term" x) /\
    derivable_pt_lim (Vs j "Z0_term") x (Vs j "Z0p_term" x) /\
    derivable_pt_lim (Vs j "Z0p_term") x (Vs j "Z0pp_term" x) /\
    derivable_pt_lim (Vs j "Z0pp_term") x (Vs j "Z0ppp_term" x)).
  { intros j Hj. destruct (H j Hj) as (HV & Hp & H1 & H2 & H3 & H4 & H5 & H6).
    exact (terms_are_derivatives O (Vs j) HV Hp H1 H2 H3 H4 H5 H6 x). }
  unfold S.
  repeat split;
    apply (hsum_deriv k (fun j => Vs j _) (fun j => Vs j _)); intros j Hj; apply (T j Hj).
Qed.

(* ------------------------------------------------------------------------------------------ *)
(* A4: origin shift                                                                             *)
(* ------------------------------------------------------------------------------------------ *)
(* CONVENTION.  V describes the curve with the original coefficients at the angle phi;
   V' describes it from an origin moved forward by phik: the same physical point has
   phi' = phi - phik, i.e.  V "phi" i = V' "phi" i + phik.  jn and nfp are the same, and the
   coefficients of V' are the ones of V rotated by the angle a = n*phik (n = jn*nfp = V "n" i):
        rc' =  rc cos a + rs sin a        rs' = - rc sin a + rs cos a       (same for zc, zs).
   Then every term of V' (rotated coefficients, angle phi') equals the term of V (original
   coefficients, angle phi' + phik).  The two *_func_term values are built from s.nfp, s.phi
   instead of nfp, phi, so for them the hypotheses of A2 are needed in both models. *)
Section Shift.
  Context {I : Type} (O : ops I) (V V' : string -> I -> R).
  Hypothesis HV : is_fix O init_axis_term V.
  Hypothesis HV' : is_fix O init_axis_term V'.

  Definition shifted (phik : R) (i : I) : Prop :=
    let a := V "n" i * phik in
    V' "jn" i = V "jn" i /\ V' "nfp" i = V "nfp" i /\
    V "phi" i = V' "phi" i + phik /\
    V' "rc_jn" i = V "rc_jn" i * cos a + V "rs_jn" i * sin a /\
    V' "rs_jn" i = - V "rc_jn" i * sin a + V "rs_jn" i * cos a /\
    V' "zc_jn" i = V "zc_jn" i * cos a + V "zs_jn" i * sin a /\
    V' "zs_jn" i = - V "zc_jn" i * sin a + V "zs_jn" i * cos a.

  Theorem term_shift phik i : shifted phik i ->
    V' "R0_term" i = V "R0_term" i /\ V' "Z0_term" i = V "Z0_term" i /\
    V' "R0p_term" i = V "R0p_term" i /\ V' "Z0p_term" i = V "Z0p_term" i /\
    V' "R0pp_term" i = V "R0pp_term" i /\ V' "Z0pp_term" i = V "Z0pp_term" i /\
    V' "R0ppp_term" i = V "R0ppp_term" i /\ V' "Z0ppp_term" i = V "Z0ppp_term" i.
  Proof.
    intros (Hj & Hn & Hp & Hrc & Hrs & Hzc & Hzs).
    assert (En : V' "n" i = V "n" i) by (rewrite !(n_def O _ HV'), !(n_def O _ HV), Hj, Hn; reflexivity).
    rewrite !(R0_closed O V' HV'), !(Z0_closed O V' HV'), !(R0p_closed O V' HV'), !(Z0p_closed O V' HV'),
      !(R0pp_closed O V' HV'), !(Z0pp_closed O V' HV'), !(R0ppp_closed O V' HV'), !(Z0ppp_closed O V' HV').
    rewrite !(R0_closed O V HV), !(Z0_closed O V HV), !(R0p_closed O V HV), !(Z0p_closed O V HV),
      !(R0pp_closed O V HV), !(Z0pp_closed O V HV), !(R0ppp_closed O V HV), !(Z0ppp_closed O V HV).
    rewrite En, Hrc, Hrs, Hzc, Hzs, Hp. unfold harm.
    replace (V "n" i * (V' "phi" i + phik)) with (V "n" i * V' "phi" i + V "n" i * phik) by ring.
    rewrite cos_plus, sin_plus.
    repeat split; ring.
  Qed.

  Theorem term_shift_func phik i : shifted phik i ->
    V "s.nfp" i = V "nfp" i -> V "s.phi" i = V "phi" i ->
    V' "s.nfp" i = V' "nfp" i -> V' "s.phi" i = V' "phi" i ->
    V' "R0_func_term" i = V "R0_func_term" i /\ V' "Z0_func_term" i = V "Z0_func_term" i.
  Proof.
    intros Hs H1 H2 H3 H4.
    destruct (spline_terms_agree_pt O V HV i H1 H2) as [-> ->].
    destruct (spline_terms_agree_pt O V' HV' i H3 H4) as [-> ->].
    destruct (term_shift phik i Hs) as (A & B & _). split; assumption.
  Qed.
End Shift.

(* ------------------------------------------------------------------------------------------ *)
(* A5: toroidal reversal                                                                        *)
(* ------------------------------------------------------------------------------------------ *)
(* CONVENTION.  jn = INR m and nfp = INR N with N > 0 in both models; the reversed model V'
   is evaluated at phi' = 2 pi / nfp - phi and has rc' = rc, zc' = zc, rs' = - rs, zs' = - zs.
   Signs (column T of tables/signs.json): R0, Z0, R0pp, Z0pp : +1;  R0p, Z0p, R0ppp, Z0ppp : -1. *)
Lemma cos_rev (m : nat) (x : R) : cos (2 * INR m * PI - x) = cos x.
Proof.
  replace (2 * INR m * PI - x) with (- x + 2 * INR m * PI) by ring.
  rewrite cos_period. apply cos_neg.
Qed.
Lemma sin_rev (m : nat) (x : R) : sin (2 * INR m * PI - x) = - sin x.
Proof.
  replace (2 * INR m * PI - x) with (- x + 2 * INR m * PI) by ring.
  rewrite sin_period. apply sin_neg.
Qed.

Section Reverse.
  Context {I : Type} (O : ops I) (V V' : string -> I -> R).
  Hypothesis HV : is_fix O init_axis_term V.
  Hypothesis HV' : is_fix O init_axis_term V'.

  Definition reversed (m N : nat) (i : I) : Prop :=
    (0 < N)%nat /\
    V "jn" i = INR m /\ V "nfp" i = INR N /\ V' "jn" i = INR m /\ V' "nfp" i = INR N /\
    V' "phi" i = 2 * PI / V "nfp" i - V "phi" i /\
    V' "rc_jn" i = V "rc_jn" i /\ V' "rs_jn" i = - V "rs_jn" i /\
    V' "zc_jn" i = V "zc_jn" i /\ V' "zs_jn" i = - V "zs_jn" i.

  Theorem term_reverse m N i : reversed m N i ->
    V' "R0_term" i = V "R0_term" i /\ V' "Z0_term" i = V "Z0_term" i /\
    V' "R0p_term" i = - V "R0p_term" i /\ V' "Z0p_term" i = - V "Z0p_term" i /\
    V' "R0pp_term" i = V "R0pp_term" i /\ V' "Z0pp_term" i = V "Z0pp_term" i /\
    V' "R0ppp_term" i = - V "R0ppp_term" i /\ V' "Z0ppp_term" i = - V "Z0ppp_term" i.
  Proof.
    intros (HN & Hj & Hn & Hj' & Hn' & Hp & Hrc & Hrs & Hzc & Hzs).
    assert (HN0 : INR N <> 0) by (apply not_0_INR; intros ->; inversion HN).
    assert (En : V' "n" i = V "n" i)
      by (rewrite !(n_def O _ HV'), !(n_def O _ HV), Hj, Hn, Hj', Hn'; reflexivity).
    assert (Ea : V "n" i * V' "phi" i = 2 * INR m * PI - V "n" i * V "phi" i).
    { rewrite Hp, (n_def O _ HV), Hj, Hn. field. exact HN0. }
    rewrite !(R0_closed O V' HV'), !(Z0_closed O V' HV'), !(R0p_closed O V' HV'), !(Z0p_closed O V' HV'),
      !(R0pp_closed O V' HV'), !(Z0pp_closed O V' HV'), !(R0ppp_closed O V' HV'), !(Z0ppp_closed O V' HV').
    rewrite !(R0_closed O V HV), !(Z0_closed O V HV), !(R0p_closed O V HV), !(Z0p_closed O V HV),
      !(R0pp_closed O V HV), !(Z0pp_closed O V HV), !(R0ppp_closed O V HV), !(Z0ppp_closed O V HV).
    rewrite En, Hrc, Hrs, Hzc, Hzs. unfold harm. rewrite Ea, cos_rev, sin_rev.
    repeat split; ring.
  Qed.

  Theorem term_reverse_func m N i : reversed m N i ->
    V "s.nfp" i = V "nfp" i -> V "s.phi" i = V "phi" i ->
    V' "s.nfp" i = V' "nfp" i -> V' "s.phi" i = V' "phi" i ->
    V' "R0_func_term" i = V "R0_func_term" i /\ V' "Z0_func_term" i = V "Z0_func_term" i.
  Proof.
    intros Hr H1 H2 H3 H4.
    destruct (spline_terms_agree_pt O V HV i H1 H2) as [-> ->].
    destruct (spline_terms_agree_pt O V' HV' i H3 H4) as [-> ->].
    destruct (term_reverse m N i Hr) as (A & B & _). split; assumption.
  Qed.
End Reverse.

(* ------------------------------------------------------------------------------------------ *)
(* Closed statements on the final environment of a run of the regenerated program               *)
(* ------------------------------------------------------------------------------------------ *)
Theorem term_zero_coeffs_run {I : Type} (O : ops I) (rho : @envG I) (i : I) :
  let V := runG O init_axis_term rho in
  V "rc_jn" i = 0 -> V "rs_jn" i = 0 -> V "zc_jn" i = 0 -> V "zs_jn" i = 0 ->
  V "R0_term" i = 0 /\ V "Z0_term" i = 0 /\ V "R0p_term" i = 0 /\ V "Z0p_term" i = 0 /\
  V "R0pp_term" i = 0 /\ V "Z0pp_term" i = 0 /\ V "R0ppp_term" i = 0 /\ V "Z0ppp_term" i = 0 /\
  V "R0_func_term" i = 0 /\ V "Z0_func_term" i = 0.
Proof. intro V. exact (term_zero_coeffs O V (runG_is_fix O _ rho ssa_init_axis_term) i). Qed.

Print Assumptions term_zero_coeffs.
Print Assumptions spline_terms_agree.
Print Assumptions terms_are_derivatives.
Print Assumptions terms_jets.
Print Assumptions axis_sum_pad.
Print Assumptions axis_sums_are_derivatives.
Print Assumptions term_shift.
Print Assumptions term_shift_func.
Print Assumptions term_reverse.
Print Assumptions term_reverse_func.
Print Assumptions term_zero_coeffs_run.
