(* C12, clause "the Jacobian coefficients involved equal those obtained directly from the triple product of the
   position vector's derivatives".

   calculate_r_singularity writes  sqrt g = r [ g0 + r g1c cos th + r^2 (g20 + g2c cos 2th + g2s sin 2th) ]  and defines
   g0, g1c, g20, g2c, g2s by explicit polynomials.  Here sqrt g = e_r . (e_th x e_ph) is the formal double series
   [sqrtg] of props/C01_spec.v (QSC.Series), built from the attribute values at one grid point; the code's local
   lp = |G0| / B0 is used for dl/dvarphi ([lp_link] identifies it with the attribute abs_G0_over_B0).

   PURE ALGEBRA (cbv + ring; V any model of the regenerated program, third-order attributes x3 = (X3c1, Y3c1, Y3s1) arbitrary):
     sqrtg[r^1] = g0                                   (harmonics 1, 2 vanish)
     sqrtg[r^2] = g1c cos th + g1s sin th,             g1s = 2 lp (X1c Y20 - X1c Y2c - X20 Y1c + X2c Y1c + X2s Y1s)
                                                       (the expression commented out in the code), harmonics 0, 2, 3 vanish
     sqrtg[r^3] = (g20 + 2 lp (X1c Y3s1 + X3c1 Y1s))
                  + (g2c - lp (X1c Y3s1 - X3c1 Y1s)) cos 2th + (g2s + lp (X1c Y3c1 - X3c1 Y1c)) sin 2th,
                                                       harmonics 1, 3, 4 vanish
   so the ansatz of the code drops no harmonic through r^3 except g1s.
   Consequences: at order r2 (third-order shape = 0) the five coefficients of the code ARE the triple-product
   coefficients ([C12_coefficients_r2]); with the order-r3 shape X3 = lambda X1, Y3 = lambda Y1 the code's g2c, g2s are
   still exact but  sqrtg[r^3, average] = g20 + 4 lambda g0  ([C12_coefficients_r3]): the code's g20 omits the
   third-order contribution.
   NEEDS FACTS: g1s = 0 ("g1s vanishes for quasisymmetry") is not algebra; it is B0^2 g1s = jac[r^2, sin th]
   ([g1s_from_jac]), i.e. it follows from the order-r2 Jacobian claim of C01 (Y2s/Y2c constraints + first-order solution). *)
From Coq Require Import Reals String List Lra QArith Qreals.
From QSC Require Import Expr Shallow Series.
From QSCGen Require Import G_init_axis G_r1_diagnostics G_residual G_calculate_r2 G_calculate_r_singularity.
From QSCProps Require Import C04_spec C01_spec C01_common C01_facts2 C01_r1 C01_r2base C01_r2a C01_r2b C01_r2c C01_r2.
Import ListNotations.
Open Scope R_scope.
Open Scope string_scope.

(* attribute values at grid point i, with dl/dvarphi := l and the third-order entries taken from b *)
Definition atoms3 {I : Type} (S : string -> I -> R) (i : I) (l : R) (b : atoms) : atoms :=
  let s := atoms_of S i in
  mkAtoms (a_kap s) (a_tau s) l (a_iotaN s) (a_iota s) (a_B0 s) (a_eta s) (a_B20 s) (a_B2c s) (a_B2s s)
          (a_G0 s) (a_G2 s) (a_I2 s) (a_be s) (a_spsi s) (a_X1c s) (a_Y1c s) (a_Y1s s) (a_dX1c s) (a_dY1c s) (a_dY1s s)
          (a_X20 s) (a_X2c s) (a_X2s s) (a_Y20 s) (a_Y2c s) (a_Y2s s) (a_Z20 s) (a_Z2c s) (a_Z2s s)
          (a_dX20 s) (a_dX2c s) (a_dX2s s) (a_dY20 s) (a_dY2c s) (a_dY2s s) (a_dZ20 s) (a_dZ2c s) (a_dZ2s s)
          (a_X3c1 b) (a_Y3c1 b) (a_Y3s1 b) (a_dX3c1 b) (a_dY3c1 b) (a_dY3s1 b).
(* third-order shape identically zero (what the object holds at order r2) *)
Definition zero3 : atoms :=
  mkAtoms 0 0 0 0 0 0 0 0 0 0 0 0 0 0 0 0 0 0 0 0 0 0 0 0 0 0 0 0 0 0 0 0 0 0 0 0 0 0 0 0 0 0 0 0 0.

Ltac rs_unfold O HV :=
  unfold_fixes O calculate_r_singularity HV
    ("g0" :: "g1c" :: "g20" :: "g2c" :: "g2s" :: "X1c" :: "Y1s" :: "Y1c" :: "X20" :: "X2s" :: "X2c" :: "Y20" :: "Y2s" :: "Y2c"
     :: "Z20" :: "Z2s" :: "Z2c" :: "curvature" :: "torsion" :: "d_X1c_d_varphi" :: "d_Y1s_d_varphi" :: "d_Y1c_d_varphi"
     :: "d_Z20_d_varphi" :: "d_Z2s_d_varphi" :: "d_Z2c_d_varphi" :: nil)%list.

Section Algebra.
  Context {I : Type} (O : ops I) (S V : string -> I -> R).
  Hypothesis HS : stage O calculate_r_singularity S V.
  Variable i : I.
  Variable b : atoms.
  Let HV := st_fix _ _ _ _ HS.
  Notation a := (atoms3 S i (V "lp" i) b).
  Notation lp := (V "lp" i).

  Ltac go := unfold atoms3, atoms_of; destruct b; compute_coef; rs_unfold O HV; to_state HS; qsimp; field.

  (* order r^1 *)
  Theorem sqrtg1 :
    length (sqrtg a 1%nat) = 3%nat /\ tcos (sqrtg a 1%nat) 0 = V "g0" i /\ tsin (sqrtg a 1%nat) 0 = 0
    /\ tcos (sqrtg a 1%nat) 1 = 0 /\ tsin (sqrtg a 1%nat) 1 = 0
    /\ tcos (sqrtg a 1%nat) 2 = 0 /\ tsin (sqrtg a 1%nat) 2 = 0.
  Proof. split; [destruct b; reflexivity|]. split; [go|]. repeat split; try (destruct b; reflexivity); go. Qed.

  (* order r^2 *)
  Definition g1s : R :=
    2 * lp * (S "s.X1c" i * S "s.Y20" i - S "s.X1c" i * S "s.Y2c" i - S "s.X20" i * S "s.Y1c" i
              + S "s.X2c" i * S "s.Y1c" i + S "s.X2s" i * S "s.Y1s" i).
  Theorem sqrtg2 :
    length (sqrtg a 2%nat) = 4%nat
    /\ tcos (sqrtg a 2%nat) 1 = V "g1c" i /\ tsin (sqrtg a 2%nat) 1 = g1s
    /\ tcos (sqrtg a 2%nat) 0 = 0 /\ tsin (sqrtg a 2%nat) 0 = 0
    /\ tcos (sqrtg a 2%nat) 2 = 0 /\ tsin (sqrtg a 2%nat) 2 = 0
    /\ tcos (sqrtg a 2%nat) 3 = 0 /\ tsin (sqrtg a 2%nat) 3 = 0.
  Proof.
    split; [destruct b; reflexivity|]. split; [go|]. split; [unfold g1s; go|].
    repeat split; try (destruct b; reflexivity); go.
  Qed.

  (* order r^3 *)
  Theorem sqrtg3 :
    length (sqrtg a 3%nat) = 5%nat
    /\ tcos (sqrtg a 3%nat) 0 = V "g20" i + 2 * lp * (S "s.X1c" i * a_Y3s1 b + a_X3c1 b * S "s.Y1s" i)
    /\ tcos (sqrtg a 3%nat) 2 = V "g2c" i - lp * (S "s.X1c" i * a_Y3s1 b - a_X3c1 b * S "s.Y1s" i)
    /\ tsin (sqrtg a 3%nat) 2 = V "g2s" i + lp * (S "s.X1c" i * a_Y3c1 b - a_X3c1 b * S "s.Y1c" i)
    /\ tsin (sqrtg a 3%nat) 0 = 0
    /\ tcos (sqrtg a 3%nat) 1 = 0 /\ tsin (sqrtg a 3%nat) 1 = 0
    /\ tcos (sqrtg a 3%nat) 3 = 0 /\ tsin (sqrtg a 3%nat) 3 = 0
    /\ tcos (sqrtg a 3%nat) 4 = 0 /\ tsin (sqrtg a 3%nat) 4 = 0.
  Proof.
    split; [destruct b; reflexivity|].
    split; [go|]. split; [go|]. split; [go|].
    repeat split; try (destruct b; reflexivity); go.
  Qed.
End Algebra.

(* ---- consequences ---- *)
Section Consequences.
  Context {I : Type} (O : ops I) (S V : string -> I -> R).
  Hypothesis HS : stage O calculate_r_singularity S V.
  Variable i : I.
  Let HV := st_fix _ _ _ _ HS.

  (* order r2: third-order shape = 0; the five coefficients of the code are the triple-product coefficients *)
  Theorem C12_coefficients_r2 :
    let a := atoms3 S i (V "lp" i) zero3 in
    tcos (sqrtg a 1%nat) 0 = V "g0" i /\ tcos (sqrtg a 2%nat) 1 = V "g1c" i
    /\ tcos (sqrtg a 3%nat) 0 = V "g20" i /\ tcos (sqrtg a 3%nat) 2 = V "g2c" i /\ tsin (sqrtg a 3%nat) 2 = V "g2s" i.
  Proof.
    intros a.
    destruct (sqrtg1 O S V HS i zero3) as (_ & H0 & _).
    destruct (sqrtg2 O S V HS i zero3) as (_ & H1 & _).
    destruct (sqrtg3 O S V HS i zero3) as (_ & H20 & H2c & H2s & _).
    cbn [zero3 a_X3c1 a_Y3c1 a_Y3s1] in H20, H2c, H2s.
    repeat split; try assumption; unfold a; [rewrite H20 | rewrite H2c | rewrite H2s]; ring.
  Qed.

  (* order r3: X3 = lambda X1, Y3 = lambda Y1.  g2c and g2s are exact; the average is g20 + 4 lambda g0 *)
  Theorem C12_coefficients_r3 : r3_facts S ->
    let a := atoms3 S i (V "lp" i) (atoms_of S i) in
    tcos (sqrtg a 3%nat) 0 = V "g20" i + 4 * S "s.flux_constraint_coefficient" i * V "g0" i
    /\ tcos (sqrtg a 3%nat) 2 = V "g2c" i /\ tsin (sqrtg a 3%nat) 2 = V "g2s" i.
  Proof.
    intros H3 a.
    destruct (sqrtg3 O S V HS i (atoms_of S i)) as (_ & H20 & H2c & H2s & _).
    cbn [atoms_of a_X3c1 a_Y3c1 a_Y3s1] in H20, H2c, H2s.
    rewrite ?(r3_X3c1 S H3), ?(r3_Y3c1 S H3), ?(r3_Y3s1 S H3) in H20.
    rewrite ?(r3_X3c1 S H3), ?(r3_Y3c1 S H3), ?(r3_Y3s1 S H3) in H2c.
    rewrite ?(r3_X3c1 S H3), ?(r3_Y3c1 S H3), ?(r3_Y3s1 S H3) in H2s.
    repeat split; unfold a; [rewrite H20 | rewrite H2c | rewrite H2s]; try ring.
    unfold_fixes O calculate_r_singularity HV ("g0" :: "X1c" :: "Y1s" :: nil)%list. to_state HS. ring.
  Qed.
End Consequences.

(* "g1s vanishes for quasisymmetry": B0^2 g1s is the sin(theta) coefficient of the Jacobian residual at r^2 *)
Lemma g1s_from_jac (a : atoms) : tsin (jac a 2%nat) 1 = a_B0 a * a_B0 a * tsin (sqrtg a 2%nat) 1.
Proof. destruct a. compute_coef. field. Qed.
Lemma g1s_vanishes (a : atoms) : tzero (jac a 2%nat) -> a_B0 a <> 0 -> tsin (sqrtg a 2%nat) 1 = 0.
Proof.
  intros H HB. pose proof (tzero_tsin _ H 1%nat) as K. rewrite g1s_from_jac in K.
  apply Rmult_integral in K. destruct K as [K|K]; [|exact K].
  apply Rmult_integral in K. destruct K; contradiction.
Qed.

(* the code's lp = |G0| / B0 is the attribute abs_G0_over_B0 *)
Lemma lp_link {I : Type} (O : ops I) (S V : string -> I -> R) :
  stage O calculate_r_singularity S V -> axis_facts S -> admissible S ->
  forall i, V "lp" i = S "s.abs_G0_over_B0" i.
Proof.
  intros HS HA Hadm i. pose proof (st_fix _ _ _ _ HS) as HV.
  unfold_fix O calculate_r_singularity HV "lp". to_state HS.
  rewrite (ax_G0 S HA). cbv beta.
  pose proof (adm_B0 S Hadm i) as Hb. pose proof (adm_lp S Hadm i) as Hl.
  rewrite !Rabs_mult, (Rabs_pos_eq (S "s.abs_G0_over_B0" i)), (Rabs_pos_eq (S "s.B0" i)) by lra.
  assert (Hs : Rabs (S "s.sG" i) = 1).
  { destruct (sq1_cases _ (adm_sG S Hadm i)) as [E|E]; rewrite E; unfold Rabs; destruct Rcase_abs; lra. }
  rewrite Hs. field. lra.
Qed.

(* Closed statement at order r2, for both helicity variants: the Jacobian coefficients used by calculate_r_singularity
   are the coefficients of e_r . (e_th x e_ph) built from the returned attributes (third-order shape = 0), and the
   sin(theta) coefficient that the code's ansatz omits vanishes. *)
Definition C12_jacobian_statement {I : Type} (O : ops I) (S : string -> I -> R) (P1 P2 : prog) : Prop :=
  r2_hyps O S P1 P2 -> forall V, stage O calculate_r_singularity S V -> forall i,
    let a := with_second_order S i zero3 in
    tcos (sqrtg a 1%nat) 0 = V "g0" i /\ tcos (sqrtg a 2%nat) 1 = V "g1c" i /\ tsin (sqrtg a 2%nat) 1 = 0
    /\ tcos (sqrtg a 3%nat) 0 = V "g20" i /\ tcos (sqrtg a 3%nat) 2 = V "g2c" i /\ tsin (sqrtg a 3%nat) 2 = V "g2s" i.

Lemma C12_jacobian_gen {I : Type} (O : ops I) (S : string -> I -> R) (P1 P2 : prog) :
  C01_r2_statement O S P1 P2 -> C12_jacobian_statement O S P1 P2.
Proof.
  intros C01 Hyp V HS i a.
  pose proof (C01 Hyp i zero3) as (_ & _ & _ & J2 & _).
  destruct Hyp as ((HD & Hadm & [VA HA] & _) & _).
  pose proof (axis_facts_of_stage O S VA HA) as FA.
  pose proof (lp_link O S V HS FA Hadm i) as Hlp.
  pose proof (C12_coefficients_r2 O S V HS i) as K. cbv zeta in K. unfold atoms3 in K. rewrite Hlp in K.
  destruct K as (K0 & K1 & K20 & K2c & K2s).
  repeat split; try assumption.
  apply g1s_vanishes; [exact J2|].
  unfold a, with_second_order, atoms_of; cbn [a_B0]. apply Rgt_not_eq. apply (adm_B0 S Hadm).
Qed.
Theorem C12_jacobian_h0 : forall (I : Type) (O : ops I) (S : string -> I -> R),
  C12_jacobian_statement O S r1_diagnostics_h0 calculate_r2_h0.
Proof. intros. apply C12_jacobian_gen. apply C01_r2_h0. Qed.
Theorem C12_jacobian_hN : forall (I : Type) (O : ops I) (S : string -> I -> R),
  C12_jacobian_statement O S r1_diagnostics_hN calculate_r2_hN.
Proof. intros. apply C12_jacobian_gen. apply C01_r2_hN. Qed.

Print Assumptions sqrtg1.
Print Assumptions sqrtg2.
Print Assumptions sqrtg3.
Print Assumptions C12_coefficients_r3.
Print Assumptions C12_jacobian_h0.
Print Assumptions C12_jacobian_hN.
