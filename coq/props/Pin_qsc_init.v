(* Source pin: the hand-written model of qsc/qsc.py:__init__ was written and validated (correspondence runs evaluated inside Coq, see DESIGN.md 1.1) against the
   source whose normalised syntax tree has this digest (tools/gen_pins.py).  If the function is edited this obligation fails and the check searches
   for a failing input; after re-validating the model against the new source, regenerate with `tools/gen_pins.py --write-props`. *)
From Coq Require Import String.
From QSCGen Require Import G_pins.
Open Scope string_scope.

Lemma pin_qsc_init_current : pin_qsc_init = "1df53bc544bb0a6a883f309c738ee7ca58d6dd786d1d42fa9f0b0554fd983313".
Proof. reflexivity. Qed.
