(* C15 (axis arrays): VMEC evaluates its axis series with the angle  m theta - n nfp phi  at m = 0, i.e.
       R_axis(phi) = sum_n RAXIS_CC(n) cos(- n nfp phi) + RAXIS_CS(n) sin(- n nfp phi),   Z_axis likewise with ZAXIS_CC / ZAXIS_CS,
   while pyQSC's input axis is  R0(phi) = sum_n rc(n) cos(n nfp phi) + rs(n) sin(n nfp phi),  Z0 = sum_n zc(n) cos + zs(n) sin.
   The two describe the same curve for every phi exactly when the file carries CC = (rc, zc) and CS = (-rs, -zs): that is what to_vmec writes
   (`RAXIS_CS = -self.rs`, `ZAXIS_CS = -self.zs`; the function is pinned by props/Pin_to_vmec.v and the written numbers are parsed back on every run).
   The converse shows the sign is forced: a file with CS = +rs describes a different curve unless rs vanishes. *)
From Coq Require Import Reals List Lra.
Import ListNotations.
Open Scope R_scope.

Fixpoint series (cc cs : list R) (w : R) (n : nat) : R :=
  match cc, cs with
  | c :: cc', s :: cs' => c * cos (INR n * w) + s * sin (INR n * w) + series cc' cs' w (S n)
  | _, _ => 0
  end.

(* pyQSC's convention: angle +n nfp phi;  VMEC's convention at m = 0: angle -n nfp phi *)
Definition qsc_axis (cc cs : list R) (nfp phi : R) : R := series cc cs (nfp * phi) 0.
Definition vmec_axis (CC CS : list R) (nfp phi : R) : R := series CC CS (- (nfp * phi)) 0.

Lemma series_neg cc : forall cs w n, series cc (map Ropp cs) (- w) n = series cc cs w n.
Proof.
  induction cc as [|c cc IH]; intros [|s cs] w n; simpl; try reflexivity.
  rewrite IH. replace (INR n * - w) with (- (INR n * w)) by ring. rewrite cos_neg, sin_neg. ring.
Qed.

Theorem C15_axis_convention cc cs nfp phi : vmec_axis cc (map Ropp cs) nfp phi = qsc_axis cc cs nfp phi.
Proof. unfold vmec_axis, qsc_axis. apply series_neg. Qed.

(* the sign is forced: with one sine harmonic of amplitude s <> 0 written WITHOUT the minus sign the curves differ at nfp phi = pi/2 *)
Theorem C15_axis_sign_forced s : s <> 0 -> vmec_axis [0; 0] [0; s] 1 (PI / 2) <> qsc_axis [0; 0] [0; s] 1 (PI / 2).
Proof.
  intros Hs. unfold vmec_axis, qsc_axis. simpl.
  replace (1 * - (1 * (PI / 2))) with (- (PI / 2)) by ring. replace (1 * (1 * (PI / 2))) with (PI / 2) by ring.
  replace (0 * - (1 * (PI / 2))) with 0 by ring. replace (0 * (1 * (PI / 2))) with 0 by ring.
  rewrite sin_neg, cos_neg, sin_PI2, cos_PI2, sin_0, cos_0. lra.
Qed.
Print Assumptions C15_axis_convention.
Print Assumptions C15_axis_sign_forced.
