(* Source pin: the hand-written model of qsc/util.py:fourier_minimum was written and validated (correspondence runs evaluated inside Coq, see DESIGN.md 1.1) against the
   source whose normalised syntax tree has this digest (tools/gen_pins.py).  If the function is edited this obligation fails and the check searches
   for a failing input; after re-validating the model against the new source, regenerate with `tools/gen_pins.py --write-props`. *)
From Coq Require Import String.
From QSCGen Require Import G_pins.
Open Scope string_scope.

Lemma pin_fourier_minimum_current : pin_fourier_minimum = "38eeb4608de626d3ce2b9cf713ee220d5051eb026a740c173130cdafaa04fedb".
Proof. reflexivity. Qed.
