(* C10, vacuum clause (c), entries with the tangential field component, part a: G002 = G020.
   Substitution chain (X2s, X2c, B20, G2, Z2*, sigma equation and its derivative) + field. *)
From Coq Require Import Reals String List Lra Lia QArith Qreals FunctionalExtensionality.
From QSC Require Import Expr Shallow.
From QSCGen Require Import G_init_axis G_r1_diagnostics G_calculate_r2 G_residual G_calculate_grad_grad_B_tensor.
From QSCProps Require Import C10_spec C10_common C10_vacuum_common.
Open Scope R_scope.
Open Scope string_scope.

Section Bt.
  Context {I : Type} (O : ops I) (HD : derivation O) (S VA V1 V2 : string -> I -> R).
  Hypothesis Hadm : admissible S.
  Hypothesis HA : stage O init_axis S VA.
  Hypothesis H1 : stage O r1_diagnostics_h0 S V1 \/ stage O r1_diagnostics_hN S V1.
  Hypothesis H2 : stage O calculate_r2_h0 S V2 \/ stage O calculate_r2_hN S V2.
  Notation Dv := (Dv O S).
  Notation sG := (S "s.sG"). Notation spsi := (S "s.spsi"). Notation kap := (S "s.curvature").
  Notation etabar := (S "s.etabar"). Notation X1c := (S "s.X1c"). Notation Y1s := (S "s.Y1s"). Notation Y1c := (S "s.Y1c").
  Notation aGB := (S "s.abs_G0_over_B0"). Notation B0 := (S "s.B0").
  Local Notation F_X1c := (C10_common.F_X1c O HD S VA V1 V2 Hadm HA H1 H2).
  Local Notation F_G0 := (C10_common.F_G0 O HD S VA V1 V2 Hadm HA H1 H2).
  Local Notation F_dldvp := (C10_common.F_dldvp O HD S VA V1 V2 Hadm HA H1 H2).
  Local Notation F_absG0 := (C10_common.F_absG0 O HD S VA V1 V2 Hadm HA H1 H2).
  Local Notation X1c_nz := (C10_common.X1c_nz O HD S VA V1 V2 Hadm HA H1 H2).
  Local Notation F_Y1s := (C10_common.F_Y1s O HD S VA V1 V2 Hadm HA H1 H2).
  Local Notation F_Y1c := (C10_common.F_Y1c O HD S VA V1 V2 Hadm HA H1 H2).
  Local Notation F_dX1c := (C10_common.F_dX1c O HD S VA V1 V2 Hadm HA H1 H2).
  Local Notation F_dY1s := (C10_common.F_dY1s O HD S VA V1 V2 Hadm HA H1 H2).
  Local Notation F_dY1c := (C10_common.F_dY1c O HD S VA V1 V2 Hadm HA H1 H2).
  Local Notation F_dX20 := (C10_common.F_dX20 O HD S VA V1 V2 Hadm HA H1 H2).
  Local Notation F_dX2s := (C10_common.F_dX2s O HD S VA V1 V2 Hadm HA H1 H2).
  Local Notation F_dX2c := (C10_common.F_dX2c O HD S VA V1 V2 Hadm HA H1 H2).
  Local Notation F_dY20 := (C10_common.F_dY20 O HD S VA V1 V2 Hadm HA H1 H2).
  Local Notation F_dY2s := (C10_common.F_dY2s O HD S VA V1 V2 Hadm HA H1 H2).
  Local Notation F_dY2c := (C10_common.F_dY2c O HD S VA V1 V2 Hadm HA H1 H2).
  Local Notation F_dZ20 := (C10_common.F_dZ20 O HD S VA V1 V2 Hadm HA H1 H2).
  Local Notation F_dZ2s := (C10_common.F_dZ2s O HD S VA V1 V2 Hadm HA H1 H2).
  Local Notation F_dZ2c := (C10_common.F_dZ2c O HD S VA V1 V2 Hadm HA H1 H2).
  Local Notation F_dkap := (C10_common.F_dkap O HD S VA V1 V2 Hadm HA H1 H2).
  Local Notation F_dtau := (C10_common.F_dtau O HD S VA V1 V2 Hadm HA H1 H2).
  Local Notation F_d2X1c := (C10_common.F_d2X1c O HD S VA V1 V2 Hadm HA H1 H2).
  Local Notation F_d2Y1s := (C10_common.F_d2Y1s O HD S VA V1 V2 Hadm HA H1 H2).
  Local Notation F_d2Y1c := (C10_common.F_d2Y1c O HD S VA V1 V2 Hadm HA H1 H2).
  Local Notation F_Y2s := (C10_common.F_Y2s O HD S VA V1 V2 Hadm HA H1 H2).
  Local Notation F_Y2c := (C10_common.F_Y2c O HD S VA V1 V2 Hadm HA H1 H2).
  Local Notation sGspsi_const := (C10_common.sGspsi_const O HD S VA V1 V2 Hadm HA H1 H2).
  Local Notation R_XY := (C10_common.R_XY O HD S VA V1 V2 Hadm HA H1 H2).
  Local Notation R_dXY := (C10_common.R_dXY O HD S VA V1 V2 Hadm HA H1 H2).
  Local Notation R_d2XY := (C10_common.R_d2XY O HD S VA V1 V2 Hadm HA H1 H2).
  Local Notation R_kX := (C10_common.R_kX O HD S VA V1 V2 Hadm HA H1 H2).
  Local Notation R_dkX := (C10_common.R_dkX O HD S VA V1 V2 Hadm HA H1 H2).
  Local Notation S_Y1s := (C10_common.S_Y1s O HD S VA V1 V2 Hadm HA H1 H2).
  Local Notation S_dY1s := (C10_common.S_dY1s O HD S VA V1 V2 Hadm HA H1 H2).
  Local Notation S_d2Y1s := (C10_common.S_d2Y1s O HD S VA V1 V2 Hadm HA H1 H2).
  Local Notation S_kap := (C10_common.S_kap O HD S VA V1 V2 Hadm HA H1 H2).
  Local Notation S_dkap := (C10_common.S_dkap O HD S VA V1 V2 Hadm HA H1 H2).
  Local Notation R_Y2s := (C10_common.R_Y2s O HD S VA V1 V2 Hadm HA H1 H2).
  Local Notation R_Y2c := (C10_common.R_Y2c O HD S VA V1 V2 Hadm HA H1 H2).
  Local Notation R_dY2s := (C10_common.R_dY2s O HD S VA V1 V2 Hadm HA H1 H2).
  Local Notation R_dY2c := (C10_common.R_dY2c O HD S VA V1 V2 Hadm HA H1 H2).
  Local Notation sG_nz := (C10_common.sG_nz O HD S VA V1 V2 Hadm HA H1 H2).
  Local Notation spsi_nz := (C10_common.spsi_nz O HD S VA V1 V2 Hadm HA H1 H2).
  Ltac dv_push := dv_push_ O HD.
  Ltac both tac := destruct H2 as [H|H]; [tac calculate_r2_h0 H | tac calculate_r2_hN H].
  Ltac nz := repeat split; first [apply X1c_nz | apply sG_nz | apply spsi_nz | apply (adm_eta S Hadm) | apply (adm_kappa S Hadm)
                                 | apply Rgt_not_eq, (adm_B0 S Hadm) | apply Rgt_not_eq, (adm_lp S Hadm) | lra].
  Ltac fin := rewrite ?F_d2X1c, ?F_d2Y1s, ?F_d2Y1c, ?F_dX1c, ?F_dY1s, ?F_dY1c, ?F_dkap, ?F_dtau; unfold Rdiv; ring.
  (* ---- the tensor entries ---- *)
  Variable VG : string -> I -> R.
  Hypothesis HG : stage O calculate_grad_grad_B_tensor S VG.
  Ltac gg_locals := unfold_fixes O calculate_grad_grad_B_tensor (st_fix _ _ _ _ HG)
    ("X1c" :: "Y1s" :: "Y1c" :: "X20" :: "X2s" :: "X2c" :: "Y20" :: "Y2s" :: "Y2c" :: "Z20" :: "Z2s" :: "Z2c" :: "iota_N0" :: "iota" :: "lp" :: "curvature" :: "torsion" :: "sign_G" :: "sign_psi" :: "B0" :: "G0" :: "I2" :: "G2" :: "p2" :: "B20" :: "B2s" :: "B2c" :: "d_X1c_d_varphi" :: "d_Y1s_d_varphi" :: "d_Y1c_d_varphi" :: "d_X20_d_varphi" :: "d_X2s_d_varphi" :: "d_X2c_d_varphi" :: "d_Y20_d_varphi" :: "d_Y2s_d_varphi" :: "d_Y2c_d_varphi" :: "d_Z20_d_varphi" :: "d_Z2s_d_varphi" :: "d_Z2c_d_varphi" :: "d2_X1c_d_varphi2" :: "d2_Y1s_d_varphi2" :: "d2_Y1c_d_varphi2" :: "d_curvature_d_varphi" :: "d_torsion_d_varphi" :: nil)%list.
  (* S "s.grad_grad_B.." i  -->  its formula over the object state *)
  Ltac gg_entry a l :=
    rewrite <- (st_agree _ _ _ _ HG a eq_refl);
    unfold_fixes O calculate_grad_grad_B_tensor (st_fix _ _ _ _ HG) (a :: l :: nil)%list.
  Ltac close i :=
    rewrite ?R_dY2s, ?R_dY2c, ?R_Y2s, ?R_Y2c, ?S_d2Y1s, ?S_dY1s, ?S_Y1s, ?S_dkap, ?S_kap, ?F_absG0, ?F_G0;
    pose proof (adm_sG S Hadm i) as Es; pose proof (adm_spsi S Hadm i) as Ep;
    qsimp; field [Es Ep]; nz.
  Ltac two a b c d :=
    intros i; gg_entry a b; gg_entry c d; gg_locals; to_state HG; close i.
  Hypothesis Hcst : constants S.
  Variable VR : string -> I -> R.
  Hypothesis HR : stage O residual S VR.
  Hypothesis Hsig : sigma_solved O S VR.
  Local Notation F_ebc := (C10_common.F_ebc O HD S VA V1 V2 Hadm HA H1 H2 Hcst VR HR Hsig).
  Local Notation S_sigma := (C10_common.S_sigma O HD S VA V1 V2 Hadm HA H1 H2 Hcst VR HR Hsig).
  Local Notation R_sig := (C10_common.R_sig O HD S VA V1 V2 Hadm HA H1 H2 Hcst VR HR Hsig).
  Local Notation R_sig2 := (C10_common.R_sig2 O HD S VA V1 V2 Hadm HA H1 H2 Hcst VR HR Hsig).
  Local Notation S_dY1c := (C10_common.S_dY1c O HD S VA V1 V2 Hadm HA H1 H2 Hcst VR HR Hsig).
  Local Notation S_d2Y1c := (C10_common.S_d2Y1c O HD S VA V1 V2 Hadm HA H1 H2 Hcst VR HR Hsig).
  Local Notation sigE := (C10_common.sigE S).
  Local Notation sigE2 := (C10_common.sigE2 S).
  Hypothesis Hvac : vacuum_hyp S.
  Local Notation Dv_fold := (C10_vacuum_common.Dv_fold O HD S VA V1 V2 Hadm HA H1 H2 Hcst VR HR Hsig Hvac).
  Local Notation F_Z20 := (C10_vacuum_common.F_Z20 O HD S VA V1 V2 Hadm HA H1 H2 Hcst VR HR Hsig Hvac).
  Local Notation F_Z2s := (C10_vacuum_common.F_Z2s O HD S VA V1 V2 Hadm HA H1 H2 Hcst VR HR Hsig Hvac).
  Local Notation F_Z2c := (C10_vacuum_common.F_Z2c O HD S VA V1 V2 Hadm HA H1 H2 Hcst VR HR Hsig Hvac).
  Local Notation R_dZ20 := (C10_vacuum_common.R_dZ20 O HD S VA V1 V2 Hadm HA H1 H2 Hcst VR HR Hsig Hvac).
  Local Notation R_dZ2s := (C10_vacuum_common.R_dZ2s O HD S VA V1 V2 Hadm HA H1 H2 Hcst VR HR Hsig Hvac).
  Local Notation R_dZ2c := (C10_vacuum_common.R_dZ2c O HD S VA V1 V2 Hadm HA H1 H2 Hcst VR HR Hsig Hvac).
  Local Notation F_X2s := (C10_vacuum_common.F_X2s O HD S VA V1 V2 Hadm HA H1 H2 Hcst VR HR Hsig Hvac).
  Local Notation F_X2c := (C10_vacuum_common.F_X2c O HD S VA V1 V2 Hadm HA H1 H2 Hcst VR HR Hsig Hvac).
  Local Notation F_B20 := (C10_vacuum_common.F_B20 O HD S VA V1 V2 Hadm HA H1 H2 Hcst VR HR Hsig Hvac).
  Local Notation F_G2 := (C10_vacuum_common.F_G2 O HD S VA V1 V2 Hadm HA H1 H2 Hcst VR HR Hsig Hvac).
  Local Notation F_I2 := (C10_vacuum_common.F_I2 O HD S VA V1 V2 Hadm HA H1 H2 Hcst VR HR Hsig Hvac).
  Local Notation F_p2 := (C10_vacuum_common.F_p2 O HD S VA V1 V2 Hadm HA H1 H2 Hcst VR HR Hsig Hvac).
  Local Notation qs_ := (C10_vacuum_common.qs_ S).
  Local Notation qc_ := (C10_vacuum_common.qc_ S).
  Local Notation rs_ := (C10_vacuum_common.rs_ S).
  Local Notation rc_ := (C10_vacuum_common.rc_ S).
  Notation tau := (S "s.torsion"). Notation iotaN := (S "s.iotaN").
  Notation dX1c := (S "s.d_X1c_d_varphi"). Notation dY1s := (S "s.d_Y1s_d_varphi"). Notation dY1c := (S "s.d_Y1c_d_varphi").
  Notation d2X1c := (S "s.d2_X1c_d_varphi2"). Notation d2Y1s := (S "s.d2_Y1s_d_varphi2"). Notation d2Y1c := (S "s.d2_Y1c_d_varphi2").
  (* substitution chain down to X1c, Y1c, torsion, X20, Y20 (and their derivatives) *)
  Ltac vsub1 := rewrite ?R_dY2s, ?R_dY2c, ?R_Y2s, ?R_Y2c, ?F_B20, ?F_G2.
  Ltac vsubX := rewrite ?F_X2s, ?F_X2c.
  Ltac vsub2 i :=
    rewrite ?R_dZ20, ?R_dZ2s, ?R_dZ2c, ?F_Z20, ?F_Z2s, ?F_Z2c; unfold C10_vacuum_common.qc_, C10_vacuum_common.qs_, C10_vacuum_common.rc_, C10_vacuum_common.rs_;
    rewrite ?S_d2Y1c, ?S_dY1c, ?S_d2Y1s, ?S_dY1s, ?S_Y1s, ?S_dkap, ?S_kap, ?F_absG0, ?F_G0; rewrite ?F_I2, ?F_p2.
  Ltac vfin i := pose proof (adm_sG S Hadm i) as Es; pose proof (adm_spsi S Hadm i) as Ep; qsimp; field [Es Ep]; nz.
  Ltac vdirect i := vsub1; vsubX; vsub2 i; vfin i.
  Lemma vs_002 : forall i, S "s.grad_grad_B_0_0_2" i = S "s.grad_grad_B_0_2_0" i.
  Proof. intros i; gg_entry "s.grad_grad_B_0_0_2" "grad_grad_B_0_0_2#2"; gg_entry "s.grad_grad_B_0_2_0" "grad_grad_B_0_2_0#2"; gg_locals; to_state HG. vdirect i. Qed.
  Theorem C10_vacuum_Bt_a : vacuum_Bt_a S.
  Proof. intros i. unfold G. apply vs_002. Qed.
End Bt.
