(* Source pin: the hand-written model of qsc/to_vmec.py:to_vmec was written and validated (correspondence runs evaluated inside Coq, see DESIGN.md 1.1) against the
   source whose normalised syntax tree has this digest (tools/gen_pins.py).  If the function is edited this obligation fails and the check searches
   for a failing input; after re-validating the model against the new source, regenerate with `tools/gen_pins.py --write-props`. *)
From Coq Require Import String.
From QSCGen Require Import G_pins.
Open Scope string_scope.

Lemma pin_to_vmec_current : pin_to_vmec = "b7bcda11b4d946f92ae2c44c93a69598ca466732071f85720f020af3be44725a".
Proof. reflexivity. Qed.
