(* C01 (split for parallel compilation): second order claim modB[r^2] (|B| has the prescribed B20, B2c, B2s) *)
From Coq Require Import Reals String List Lra Lia QArith Qreals FunctionalExtensionality.
From QSC Require Import Expr Shallow Series.
From QSCGen Require Import G_init_axis G_r1_diagnostics G_residual G_calculate_r2 G_calculate_r3.
From QSCProps Require Import C04_spec C01_spec C01_common C01_r1 C01_r2base.
Open Scope R_scope.
Open Scope string_scope.

Section R2b.
  Context {I : Type} (O : ops I) (S : string -> I -> R).
  Hypothesis HD : derivation O.
  Hypothesis HA : axis_facts S.
  Hypothesis HR : r1_facts O S.
  Hypothesis H2 : r2_facts O S.
  Hypothesis Hadm : admissible S.
  Hypothesis Hsig : forall i, sigma_residual O S i = 0.
  Variable i : I.
  Variable b : atoms.
  Let CF : cfacts S i := cfacts_hold O S HD HA HR H2 Hadm Hsig i.
  Notation spsi := (S "s.spsi"). Notation B0 := (S "s.B0").

  Lemma modB2 : tzero (modB (with_second_order S i b) 2%nat).
  Proof.
    start_at S Hadm CF i b. compute_coef.
    pose proof (r2_B20 O S H2 i) as EB20; prep_q O S HR CF EB20. pose proof (r2_G2 O S H2 i) as EG2.
    pose proof (r2_X2c O S H2 i) as EX2c; prep_q O S HR CF EX2c. pose proof (r2_X2s O S H2 i) as EX2s; prep_q O S HR CF EX2s.
    dsigns_at S Hadm i; pose_common CF; abs_atoms S i; subst; solve_all.
  Qed.
End R2b.
