(* C04: the O(r^2) system in its FULL (un-decomposed) form, written independently of the
   code's from_X20 / from_Y20 / inhomogeneous split, and the closed forms of the property.
   V is the final environment of the translated calculate_r2 program; only public
   attributes (V "s.X") and the two oracle solution blocks are mentioned. *)
From Coq Require Import Reals String List.
From QSC Require Import Expr Shallow.
Open Scope R_scope.
Open Scope string_scope.

Section Spec.
  Context {I : Type} (O : ops I) (V : string -> I -> R).
  (* solution of the dense solve = what the code stores as X20, Y20 *)
  Variables (X20n Y20n : string).
  Notation X20 := (V X20n). Notation Y20 := (V Y20n).
  Notation X1c := (V "s.X1c"). Notation Y1s := (V "s.Y1s"). Notation Y1c := (V "s.Y1c").
  Notation X2s := (V "s.X2s"). Notation X2c := (V "s.X2c").
  Notation Y2s := (V "s.Y2s"). Notation Y2c := (V "s.Y2c").
  Notation Z20 := (V "s.Z20"). Notation Z2s := (V "s.Z2s"). Notation Z2c := (V "s.Z2c").
  Notation kap := (V "s.curvature"). Notation tau := (V "s.torsion"). Notation sigma := (V "s.sigma").
  Notation iotaN := (V "s.iotaN"). Notation etabar := (V "s.etabar").
  Notation sG := (V "s.sG"). Notation spsi := (V "s.spsi").
  Notation B0 := (V "s.B0"). Notation G0 := (V "s.G0"). Notation I2 := (V "s.I2").
  Notation beta := (V "s.beta_1s").
  Notation dvp := (V "s.d_varphi_d_phi").

  (* d/dvarphi as the code applies it *)
  Definition Dv (f : I -> R) (i : I) : R := o_D O f i / dvp i.
  (* |G0|/B0 *)
  Definition lp (i : I) : R := / (B0 i / Rabs (G0 i)).

  Definition fX0 i := Dv X20 i - tau i * lp i * Y20 i + kap i * lp i * Z20 i
      - 4 * sG i * spsi i * lp i * (Y2c i * Z2s i - Y2s i * Z2c i)
      - spsi i * (I2 i / B0 i) * (kap i * sG i * spsi i / 2 - 2 * Y20 i) * lp i
      + lp i * beta i * Y1c i / 2.
  Definition fXs i := Dv X2s i - 2 * iotaN i * X2c i - tau i * lp i * Y2s i + kap i * lp i * Z2s i
      - 4 * spsi i * sG i * lp i * (Y2c i * Z20 i - Y20 i * Z2c i)
      - spsi i * (I2 i / B0 i) * (kap i * spsi i * sG i / 2 - 2 * Y2s i) * lp i
      - lp i * beta i * Y1s i / 2.
  Definition fXc i := Dv X2c i + 2 * iotaN i * X2s i - tau i * lp i * Y2c i + kap i * lp i * Z2c i
      - 4 * spsi i * sG i * lp i * (Y20 i * Z2s i - Y2s i * Z20 i)
      - spsi i * (I2 i / B0 i) * (kap i * sG i * spsi i / 2 - 2 * Y2c i) * lp i
      - lp i * beta i * Y1c i / 2.
  Definition fY0 i := Dv Y20 i + tau i * lp i * X20 i
      - 4 * spsi i * sG i * lp i * (X2s i * Z2c i - X2c i * Z2s i)
      - spsi i * (I2 i / B0 i) * (- kap i * X1c i * X1c i / 2 + 2 * X20 i) * lp i
      - lp i * beta i * X1c i / 2.
  Definition fYs i := Dv Y2s i - 2 * iotaN i * Y2c i + tau i * lp i * X2s i
      - 4 * spsi i * sG i * lp i * (X20 i * Z2c i - X2c i * Z20 i)
      - 2 * spsi i * (I2 i / B0 i) * X2s i * lp i.
  Definition fYc i := Dv Y2c i + 2 * iotaN i * Y2s i + tau i * lp i * X2c i
      - 4 * spsi i * sG i * lp i * (X2s i * Z20 i - X20 i * Z2s i)
      - spsi i * (I2 i / B0 i) * (- kap i * X1c i * X1c i / 2 + 2 * X2c i) * lp i
      + lp i * beta i * X1c i / 2.

  (* the two coupled differential equations *)
  Definition ode1 i := X1c i * fXs i - Y1s i * fY0 i + Y1c i * fYs i - Y1s i * fYc i.
  Definition ode2 i := - X1c i * fX0 i + X1c i * fXc i - Y1c i * fY0 i + Y1s i * fYs i + Y1c i * fYc i.

  (* the two algebraic constraints *)
  Definition alg_Y2s i := sG i * spsi i * (- kap i / 2 + kap i * kap i / (etabar i * etabar i) * (- X2c i + X2s i * sigma i))
                         - sG i * spsi i * kap i * kap i / (etabar i * etabar i) * X20 i.
  Definition alg_Y2c i := sG i * spsi i * kap i * kap i / (etabar i * etabar i) * (X2s i + X2c i * sigma i)
                         - sG i * spsi i * kap i * kap i * sigma i / (etabar i * etabar i) * X20 i + Y20 i.

  (* closed forms *)
  Definition G2_closed i := - mu0R * V "s.p2" i * G0 i / (B0 i * B0 i) - V "s.iota" i * I2 i.
  Definition beta_closed i := - 4 * spsi i * sG i * mu0R * V "s.p2" i * etabar i * Rabs (G0 i)
                              / (iotaN i * B0 i * B0 i * B0 i).
  (* arclength-weighted statistics of the returned B20 profile *)
  Notation B20 := (V "s.B20"). Notation dl := (V "s.d_l_d_phi").
  Definition wmean (f : I -> R) : R := o_sum O (fun i => f i * dl i) * (1 / o_sum O dl).
  Definition B20_mean_spec (i : I) : R := wmean B20.
  Definition B20_residual_spec (i : I) : R :=
    sqrt (o_sum O (fun k => (B20 k - wmean B20) * (B20 k - wmean B20) * dl k) * (1 / o_sum O dl)) / B0 i.
  Definition B20_variation_spec (i : I) : R := o_max O B20 - o_min O B20.
End Spec.
