(* Source pin: the hand-written model of qsc/spectral_diff_matrix.py:spectral_diff_matrix was written and validated (correspondence runs evaluated inside Coq, see DESIGN.md 1.1) against the
   source whose normalised syntax tree has this digest (tools/gen_pins.py).  If the function is edited this obligation fails and the check searches
   for a failing input; after re-validating the model against the new source, regenerate with `tools/gen_pins.py --write-props`. *)
From Coq Require Import String.
From QSCGen Require Import G_pins.
Open Scope string_scope.

Lemma pin_spectral_diff_matrix_current : pin_spectral_diff_matrix = "46def9512e0bbe1fca18b110f4856d02eba7622d191e17d0c0015b937c066cf0".
Proof. reflexivity. Qed.
